#!/usr/bin/env python3
"""Writes /verif/MANIFEST.json from the table below (kept next to the rules so that it stays current)."""
import json
import os

HERE = os.path.dirname(os.path.dirname(os.path.abspath(__file__)))
props = [json.loads(l) for l in open(os.path.join(HERE, "properties.jsonl"))]

TB = ("Trusted: rustc nightly MIR construction (analysis on nightly MIR, shipping toolchain is stable - same language "
      "semantics assumed); tools/mina-facts; the std / dependency models of analysis/pse.py (DESIGN.md Appendix B); cargo "
      "building what the manifest says. ")

CHECKS = {
 "C01": ("other", "Structural static analysis. Decides, on every path of the MIR: how keyframes are split into per-property "
         "frames (data frame only on the getter's Some arm with that keyframe's position/value and the easing in force, easing "
         "carry-over, synthetic 0% and trailing 100% frames, index map parallel to the keyframes), which pair of frames the "
         "lookup returns in each case, that the eased fraction and easing come from the segment's start frame with a guarded "
         "division, and the master-index search. Does not decide the numeric value of any interpolation.",
         "path-sensitive MIR summaries + decision tables + polynomial identity", "5/C01"),
 "C02": ("other", "Structural: lerp end points reduce to a / b under bit-exact rewriting for all 11 scalar impls; zero-length "
         "segments return the start value; the hold-at-100% rule on exact cycle multiples; Ended maps to the constant 1.0/0.0; "
         "phase mapping table of prepare_frame; every sub-timeline with data ends with a held frame at 100%, the lookup holds the "
         "last frame, and the generated timeline searches the builder arguments' own boundary table. Not decided: 'few ulps' at "
         "interior keyframes.",
         "value-graph exact-IEEE rewriting + decision tables", "5/C02"),
 "C03": ("other", "Range [0,1] of the position is PROVEN by interval analysis of every feasible row of get_position (D finite > "
         "0); mirror symmetry and end-threshold = reported duration are polynomial identities; not-started test; one clock (after "
         "the not-started test the time is used only through time - delay); every finite repeat variant can end; "
         "configuration->TimeScale->getter flow incl. generated accessors. Not decided: linear rise / periodicity as numeric "
         "relations over all f32 times.", "interval abstract interpretation + polynomial normal form + dataflow", "5/C03"),
 "C04": ("other", "Decision table of set_state (helpers inlined): same-state row has no effect; every other row sets the state "
         "and ends with one update at the final time; restart rows blend from the live current values and reset time; resume "
         "takes time from the record only; entering another animated state discards the record. These are the only ways "
         "a jump can arise at set_state. Fail-closed: every row with an effect has established a different state, rows decide "
         "whether the target / the interrupted state is animated; the blend reaches every merged component and every generated "
         "sub-timeline; evaluation honours the blend before the start. Not decided: float equality of values.",
         "path-sensitive decision table over MIR", "5/C04"),
 "C05": ("other", "Complete transition relation of the animator: set_state table rows (pause record contents, untouched rows, "
         "discard rule), constructor / builder parameter-to-field map, getters, MapLike impl, and an effects analysis showing no "
         "other function writes the five state fields - so a row assertion is an assertion on every step of every history; the "
         "transition rules of C04, the advance rules of C06 and 'a blend replaces the start override' are included. "
         "Not decided: the values themselves.", "decision table + effects (field writers) analysis", "5/C05"),
 "C06": ("other", "Effect and flow analysis of advance: the accumulator becomes old + exact_conversion(elapsed) (or saturates), "
         "no branch depends on the step size, no other state field is written, values are recomputed from the absolute "
         "accumulated time; no hidden counters in the struct. With C09 the property follows for all schedules up to the "
         "per-step f32->Duration rounding the property allows.", "dataflow / effects analysis on MIR summaries", "5/C06"),
 "C07": ("other", "is_ended is true without timeline and otherwise the canonical literal duration <= time; merged duration is "
         "a maximum over all components with a natural comparator; the end test of the position code agrees with "
         "get_duration and INFINITY iff Repeat::Infinite; terminal values do not depend on the start override (every property "
         "has its own frame at 100%, override only for frame 0). Not decided: float behaviour exactly at the end instant of "
         "multi-cycle timelines.", "MIR summaries + comparator/fold idiom tables + polynomial identity", "5/C07"),
 "C10": ("other", "Truth table of the override-enable flag (exactly !repeating && !reversing while active, on before the "
         "start, off after the end), override frame replaces only frame 0 when enabled and present, loop-state terms of "
         "get_position per row; merged timelines hand start_with to and evaluate every component; generated start_with / update "
         "reach every animated property on every path with a frame. Not decided: twin equality as a value statement.",
         "decision tables over MIR", "5/C10"),
 "C11": ("other", "Typestate/dataflow: in every constructor of TimelineBuilderArguments the keyframes are sorted by a total "
         "ascending comparator on the position and everything derived from the keyframe order (boundary table) is derived "
         "from the sorted vector; generated build takes frames and table from the same arguments; keyframe() only appends.",
         "typestate (unsorted/sorted) dataflow over value graphs", "5/C11"),
 "C12": ("other", "Merged update/start_with: one order-preserving traversal of all components, each receives the caller's "
         "arguments unchanged, no other effect; aggregates map with the same-named getter and fold with min/max/common-or-None "
         "and natural comparators; Repeat's order; of/From/clone/build wrappers.", "loop-body summaries + sibling tables", "5/C12"),
 "C13": ("other", "All 29 dispatch arms resolved to their control-point constants and compared with the published CSS / "
         "easings.net table (112 constants), In/Out mirror and InOut self-mirror relations and range/monotonicity sufficient "
         "conditions in exact decimal arithmetic, end points 0->0 and 1->1 by f32 constant folding of the inlined evaluation; "
         "unit rule 'curve parameter must come from an x->t inversion' (known finding F7). Not decided: numeric agreement "
         "with the Bezier timing function.", "constant propagation through MIR + exact arithmetic relations", "5/C13"),
 "C14": ("other", "Exact end points for all scalar impls, affine-in-x polynomial identity, integer impls = checked conversion "
         "of round of f32 lerp for exactly the nine types, glam impls component-wise with matching components; besides the "
         "formula only exact short-cuts (x == 0, x == 1, a == b) are accepted. Not decided: "
         "rounding behaviour and full-range no-panic of wide integers.", "value-graph rewriting + polynomial normal form", "5/C14"),
 "C20": ("other", "Panic audit: every checked-arithmetic assert, float division/remainder and range-panicking std call "
         "reachable from the public API of the four anchored files is enumerated from MIR and must be discharged on every "
         "path (guard dominance, max(x,c)-c, successful-get => index < len, cast ranges, object invariant with checked "
         "premises, divisor = cycle duration or guarded by == 0); thorough tier compares debug and release MIR. Not decided: "
         "overflow to inf of products of extreme finite durations. Float lerp intermediates are sub-convex combinations of the two "
         "values (no overflow for finite values); a value narrowed with `as f32` is reported (known finding F8).",
         "panic-site enumeration with per-path discharge", "5/C20"),
 "C08": ("other", "Write set of the generated update on every witness struct shape and the repository's own derive uses: only "
         "animated fields of the target are stored, each store dominated by the Some arm of the same-named sub-timeline, "
         "nothing before prepare_frame returned Some; the #[animate] filter selects exactly the marked fields; no data => "
         "empty sub-timeline => None; empty timeline => None before the time scale is consulted; merged update has no other "
         "effect. Almost entirely structural and decided as such over the witness family.",
         "effects / write-set analysis of macro-generated MIR over a generated struct family", "5/C08"),
 "C09": ("other", "No interior mutability reachable from any timeline type (type-graph search), no thread-locals / static mut, "
         "update takes &self and never reads the target's animated fields, Clone is field-wise, override_start_value replaces "
         "(does not merge) and start_with writes only override fields. Excluded as in the property: user Custom easings.",
         "type-graph search + effects analysis", "5/C09"),
 "C15": ("translation_validation", "For every sentence of a corpus covering every production of the macro grammar, the MIR of "
         "the timeline! expansion and of the builder chain prescribed by the documented reading (implemented independently in "
         "witness/gen.py) are normalised into configuration records and compared (1 ulp tolerance on unit conversion); the "
         "parser's peek alternatives and suffix strings are read from its MIR and must all be known and exercised; unit table "
         "constants; ill-formed sentences must be rejected with compiling twins; every number the macro writes into an "
         "expansion is 0.0, 1.0, literal*0.01, literal*unit(literal) or the parsed literal, one form per grammar alternative, "
         "independent of the literal's size (decided for all literals). Not a proof over all sentences.",
         "translation validation of macro output by MIR value-graph comparison + grammar coverage from parser MIR", "5/C15"),
 "C16": ("translation_validation", "Same for animator!: initial state, initial values (Default + overrides, expression, omitted), "
         "`default` keyframes, A | B arms, merged arms, unmentioned states, compared as StateAnimatorBuilder chain records; "
         "animator parser alternatives must be known and exercised; the emitted-number rule of C15 for the arms' timelines.",
         "translation validation of macro output by MIR value-graph comparison", "5/C16"),
 "C17": ("translation_validation", "Structural validation of the code derive(Animate) generates for a family of struct shapes "
         "(1..6 fields, six numeric types + glam, attribute subsets, visibilities, remote proxies with reordered/extra fields): "
         "keyframe data fields, setters, keyframe_from/values_from, build wiring (getter per field, default 0% value, easing), "
         "update wiring and write set, start_with, accessors, KeyframeBuilder::build/easing, TimelineOrBuilder wrappers, "
         "visibility and target type; builder setters -> time scale -> getters -> generated accessors.",
         "structural validation of generated MIR against the generator's description", "5/C17"),
 "C18": ("other", "Decision table of one iteration of animate::<T>: disabled rows have no effect; position only grows by "
         "time.delta(), exactly when the final state of the frame is not Ended; state stores only move forward with the right "
         "guards and without a frame of delay; every frame storing Ended evaluates the timeline on the target; exactly one "
         "event per state-changing frame carrying (entity, final state); reset/set_timeline/plugin registration. Not decided: "
         "value statements while Playing, bevy scheduling.", "path-sensitive decision table over MIR", "5/C18"),
 "C19": ("other", "select_animation rows: same key => no effect; otherwise remember key, look up by current key, clone + "
         "start_with(&component of the same entity) before installing, reset; key without timeline stops and touches no "
         "component. chain_animations writes the key only for Ended + selector found + chain entry, to that entry; the event "
         "consumed must identify the component type (known finding F6); system ordering. Not decided: bevy change detection "
         "and cross-frame ordering.", "path-sensitive decision table over MIR", "5/C19"),
}
PENDING = {}

checks = []
na = []
for p in props:
    pid = p["id"]
    if pid in CHECKS:
        cat, text, tech, ref = CHECKS[pid]
        checks.append({
            "property_id": pid,
            "quick_cmd": "./verif check %s --tier quick" % pid,
            "thorough_cmd": "./verif check %s --tier thorough" % pid,
            "evidence_file": "evidence/%s.json" % pid,
            "replay_cmd_template": "python3 -m json.tool {path}",
            "engine": "mina-facts+pse",
            "level_claimed": {"category": cat, "text": text, "design_ref": "DESIGN.md section " + ref},
            "level_note": TB + "Valid-configuration assumptions are listed per rule in the evidence file.",
            "technique": "static analysis: " + tech,
        })
    else:
        na.append({"property_id": pid, "reason": PENDING.get(pid, "check under construction in this session "
                   "(DESIGN.md section 5); not yet claimed")})

m = {
 "version": 1,
 "setup_cmd": "./verif setup",
 "hooks": {"guard": "mina_verif", "enable": "none needed: static analysis reads private items from MIR directly",
           "baseline_off_cmd": "cd /repo && cargo test --workspace --no-fail-fast --offline", "source_commits": [],
           "add_only": True},
 "engines": [
  {"name": "mina-facts", "path": "tools/mina-facts", "serves_properties": sorted(CHECKS), "kind_free_text":
   "rustc_private driver (RUSTC_WORKSPACE_WRAPPER) dumping type-checked MIR of every workspace crate as JSON facts"},
  {"name": "pse", "path": "analysis", "serves_properties": sorted(CHECKS), "kind_free_text":
   "Python rule engine: path-sensitive MIR summaries with inlining, decision tables, term normalisers, intervals, effects"},
 ],
 "checks": checks,
 "not_applicable": na,
 "notes": "Every check decides structural clauses of its property from /repo's current MIR (see DESIGN.md sections 5-6 for "
          "what is and is not decided). known_findings.json lists recorded defects (known) and repaired ones (fixed).",
}
json.dump(m, open(os.path.join(HERE, "MANIFEST.json"), "w"), indent=1)
print("checks:", len(checks), "not_applicable:", len(na))
