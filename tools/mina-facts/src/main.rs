// mina-facts: a rustc_private driver that dumps structured MIR facts as JSON.
//
// Used as RUSTC_WORKSPACE_WRAPPER: argv = [self, rustc, args...].  For every workspace crate it
// compiles it writes ONE file  $MINA_FACTS_DIR/<crate>-<kind>-<hash>.json  (one write per process).
// No dependency outside the nightly sysroot.
#![feature(rustc_private)]
#![allow(rustc::internal)]

extern crate rustc_abi;
extern crate rustc_driver;
extern crate rustc_hir;
extern crate rustc_interface;
extern crate rustc_middle;
extern crate rustc_session;
extern crate rustc_span;

use rustc_hir::def::DefKind;
use rustc_hir::def_id::{DefId, LOCAL_CRATE};
use rustc_middle::mir::{
    self, AggregateKind, AssertKind, BasicBlockData, Body, Const, ConstValue, Operand, Place,
    ProjectionElem, Rvalue, StatementKind, TerminatorKind, UnwindAction,
};
use rustc_middle::ty::print::{with_crate_prefix, with_no_trimmed_paths as wntp, with_no_visible_paths};
use rustc_middle::ty::{self, Instance, Ty, TyCtxt, TypingEnv};
use rustc_span::Span;
use std::collections::HashSet;
use std::fmt::Write as _;

macro_rules! with_no_trimmed_paths {
    ($e:expr) => {
        with_no_visible_paths!(with_crate_prefix!(wntp!($e)))
    };
}

fn esc(s: &str) -> String {
    let mut o = String::with_capacity(s.len() + 2);
    o.push('"');
    for c in s.chars() {
        match c {
            '"' => o.push_str("\\\""),
            '\\' => o.push_str("\\\\"),
            '\n' => o.push_str("\\n"),
            '\r' => o.push_str("\\r"),
            '\t' => o.push_str("\\t"),
            c if (c as u32) < 0x20 => {
                let _ = write!(o, "\\u{:04x}", c as u32);
            }
            c => o.push(c),
        }
    }
    o.push('"');
    o
}

struct Cx<'tcx> {
    tcx: TyCtxt<'tcx>,
    extern_wanted: Vec<String>,
    extern_found: Vec<DefId>,
    adts_seen: HashSet<DefId>,
}

fn def_id_key(tcx: TyCtxt<'_>, d: DefId) -> String {
    format!("{}{}", tcx.crate_name(d.krate), tcx.def_path(d).to_string_no_crate_verbose())
}

fn ty_s<'tcx>(t: Ty<'tcx>) -> String {
    with_no_trimmed_paths!(t.to_string())
}

impl<'tcx> Cx<'tcx> {
    fn span_s(&self, sp: Span) -> String {
        let sm = self.tcx.sess.source_map();
        let lo = sm.lookup_char_pos(sp.lo());
        let f = match &lo.file.name {
            rustc_span::FileName::Real(r) => match r.local_path() {
                Some(p) => p.display().to_string(),
                None => format!("{:?}", lo.file.name),
            },
            o => format!("{:?}", o),
        };
        format!("{}:{}:{}", f, lo.line, lo.col.0 + 1)
    }

    fn place_json(&mut self, body: &Body<'tcx>, p: &Place<'tcx>) -> String {
        let tcx = self.tcx;
        let mut s = format!("{{\"l\":{},\"p\":[", p.local.as_usize());
        let mut pty = mir::PlaceTy::from_ty(body.local_decls[p.local].ty);
        for (i, elem) in p.projection.iter().enumerate() {
            if i > 0 {
                s.push(',');
            }
            match elem {
                ProjectionElem::Deref => s.push_str("{\"k\":\"deref\"}"),
                ProjectionElem::Field(f, fty) => {
                    let mut name = format!("{}", f.as_usize());
                    let mut owner = String::new();
                    if let ty::Adt(adt, _) = pty.ty.kind() {
                        let vi = pty.variant_index.unwrap_or(rustc_abi::FIRST_VARIANT);
                        if adt.is_enum() || adt.is_struct() || adt.is_union() {
                            let v = adt.variant(vi);
                            if f.as_usize() < v.fields.len() {
                                name = v.fields[f].name.to_string();
                            }
                            owner = with_no_trimmed_paths!(tcx.def_path_str(adt.did()));
                            self.adts_seen.insert(adt.did());
                        }
                    }
                    let _ = write!(
                        s,
                        "{{\"k\":\"field\",\"i\":{},\"name\":{},\"owner\":{},\"ty\":{}}}",
                        f.as_usize(),
                        esc(&name),
                        esc(&owner),
                        esc(&ty_s(fty))
                    );
                }
                ProjectionElem::Index(l) => {
                    let _ = write!(s, "{{\"k\":\"index\",\"l\":{}}}", l.as_usize());
                }
                ProjectionElem::ConstantIndex { offset, min_length, from_end } => {
                    let _ = write!(
                        s,
                        "{{\"k\":\"cindex\",\"offset\":{},\"min_length\":{},\"from_end\":{}}}",
                        offset, min_length, from_end
                    );
                }
                ProjectionElem::Subslice { from, to, from_end } => {
                    let _ = write!(
                        s,
                        "{{\"k\":\"subslice\",\"from\":{},\"to\":{},\"from_end\":{}}}",
                        from, to, from_end
                    );
                }
                ProjectionElem::Downcast(name, vi) => {
                    let mut n = name.map(|x| x.to_string()).unwrap_or_default();
                    if n.is_empty() {
                        if let ty::Adt(adt, _) = pty.ty.kind() {
                            n = adt.variant(vi).name.to_string();
                        }
                    }
                    let _ = write!(
                        s,
                        "{{\"k\":\"downcast\",\"variant\":{},\"i\":{}}}",
                        esc(&n),
                        vi.as_usize()
                    );
                }
                ProjectionElem::OpaqueCast(_) => s.push_str("{\"k\":\"opaque\"}"),
                ProjectionElem::UnwrapUnsafeBinder(_) => s.push_str("{\"k\":\"unwrap_binder\"}"),
            }
            pty = pty.projection_ty(tcx, elem);
        }
        s.push_str("]}");
        s
    }

    fn fn_ref_json(&mut self, body_owner: DefId, def_id: DefId, args: ty::GenericArgsRef<'tcx>) -> String {
        let tcx = self.tcx;
        let mut s = String::from("{");
        let _ = write!(s, "\"id\":{}", esc(&def_id_key(tcx, def_id)));
        let path = with_no_trimmed_paths!(tcx.def_path_str(def_id));
        let _ = write!(s, ",\"path\":{}", esc(&path));
        let pathi = with_no_trimmed_paths!(tcx.def_path_str_with_args(def_id, args));
        let _ = write!(s, ",\"path_inst\":{}", esc(&pathi));
        let name = tcx.opt_item_name(def_id).map(|n| n.to_string()).unwrap_or_default();
        let _ = write!(s, ",\"name\":{}", esc(&name));
        let _ = write!(s, ",\"krate\":{}", esc(&tcx.crate_name(def_id.krate).to_string()));
        let substs: Vec<String> = args.iter().map(|a| esc(&with_no_trimmed_paths!(a.to_string()))).collect();
        let _ = write!(s, ",\"substs\":[{}]", substs.join(","));
        if let Some(parent) = tcx.opt_parent(def_id) {
            match tcx.def_kind(parent) {
                DefKind::Trait => {
                    let _ = write!(
                        s,
                        ",\"trait\":{}",
                        esc(&with_no_trimmed_paths!(tcx.def_path_str(parent)))
                    );
                    if args.len() > 0 {
                        if let Some(t) = args[0].as_type() {
                            let _ = write!(s, ",\"self_ty\":{}", esc(&ty_s(t)));
                        }
                    }
                }
                DefKind::Impl { .. } => {
                    let st = tcx.type_of(parent).instantiate_identity().skip_norm_wip();
                    let _ = write!(s, ",\"impl_self\":{}", esc(&ty_s(st)));
                    if let Some(tr) = tcx.impl_opt_trait_ref(parent) {
                        let tr = tr.instantiate_identity().skip_norm_wip();
                        let _ = write!(
                            s,
                            ",\"impl_trait\":{}",
                            esc(&with_no_trimmed_paths!(tcx.def_path_str(tr.def_id)))
                        );
                    }
                }
                _ => {}
            }
        }
        // resolution
        let kind = tcx.def_kind(def_id);
        if matches!(kind, DefKind::Fn | DefKind::AssocFn | DefKind::Closure | DefKind::Ctor(..)) {
            let env = TypingEnv::post_analysis(tcx, body_owner);
            let r = std::panic::catch_unwind(std::panic::AssertUnwindSafe(|| {
                Instance::try_resolve(tcx, env, def_id, args)
            }));
            if let Ok(Ok(Some(inst))) = r {
                let rd = inst.def_id();
                let ik = format!("{:?}", inst.def);
                let ik = ik.split('(').next().unwrap_or("").to_string();
                let _ = write!(
                    s,
                    ",\"resolved\":{{\"id\":{},\"path\":{},\"kind\":{},\"local\":{}}}",
                    esc(&def_id_key(tcx, rd)),
                    esc(&with_no_trimmed_paths!(tcx.def_path_str(rd))),
                    esc(&ik),
                    rd.is_local()
                );
                if !rd.is_local() {
                    let p = with_no_trimmed_paths!(tcx.def_path_str(rd));
                    if self.extern_wanted.iter().any(|w| p.contains(w.as_str())) && !self.extern_found.contains(&rd) {
                        self.extern_found.push(rd);
                    }
                }
            }
        }
        if !def_id.is_local() {
            if self.extern_wanted.iter().any(|w| path.contains(w.as_str())) && !self.extern_found.contains(&def_id) {
                self.extern_found.push(def_id);
            }
        }
        s.push('}');
        s
    }

    fn const_json(&mut self, owner: DefId, c: &mir::ConstOperand<'tcx>) -> String {
        let tcx = self.tcx;
        let ty = c.const_.ty();
        let mut s = String::from("{\"k\":\"const\"");
        let _ = write!(s, ",\"ty\":{}", esc(&ty_s(ty)));
        let disp = with_no_trimmed_paths!(format!("{}", c));
        let _ = write!(s, ",\"s\":{}", esc(&disp));
        if let ty::FnDef(d, args) = ty.kind() {
            let f = self.fn_ref_json(owner, *d, args);
            let _ = write!(s, ",\"fn\":{}", f);
            s.push('}');
            return s;
        }
        let env = TypingEnv::post_analysis(tcx, owner);
        let val: Option<ConstValue> = match c.const_ {
            Const::Val(v, _) => Some(v),
            _ => {
                let r = std::panic::catch_unwind(std::panic::AssertUnwindSafe(|| {
                    c.const_.eval(tcx, env, c.span)
                }));
                match r {
                    Ok(Ok(v)) => Some(v),
                    _ => None,
                }
            }
        };
        if let Const::Unevaluated(u, _) = c.const_ {
            let _ = write!(s, ",\"uneval\":{}", esc(&def_id_key(tcx, u.def)));
            if let Some(p) = u.promoted {
                let _ = write!(s, ",\"promoted\":{}", p.as_usize());
            }
        }
        if let Some(v) = val {
            match v {
                ConstValue::Scalar(mir::interpret::Scalar::Int(i)) => {
                    let size = i.size();
                    let bits = i.to_bits(size);
                    let _ = write!(s, ",\"bits\":\"{}\",\"size\":{}", bits, size.bytes());
                    match ty.kind() {
                        ty::Float(ty::FloatTy::F32) => {
                            let f = f32::from_bits(bits as u32);
                            let _ = write!(s, ",\"f\":{}", esc(&format!("{:?}", f)));
                        }
                        ty::Float(ty::FloatTy::F64) => {
                            let f = f64::from_bits(bits as u64);
                            let _ = write!(s, ",\"f\":{}", esc(&format!("{:?}", f)));
                        }
                        ty::Int(_) => {
                            let sh = 128 - size.bits();
                            let v = ((bits as i128) << sh) >> sh;
                            let _ = write!(s, ",\"i\":\"{}\"", v);
                        }
                        ty::Uint(_) | ty::Char => {
                            let _ = write!(s, ",\"i\":\"{}\"", bits);
                        }
                        ty::Bool => {
                            let _ = write!(s, ",\"b\":{}", bits != 0);
                        }
                        _ => {}
                    }
                }
                ConstValue::Scalar(mir::interpret::Scalar::Ptr(ptr, _)) => {
                    s.push_str(",\"ptr\":true");
                    // a pointer to a `static` item: name the item, so that its initialiser can be looked up
                    let aid = ptr.provenance.alloc_id();
                    if let Some(mir::interpret::GlobalAlloc::Static(did)) = tcx.try_get_global_alloc(aid) {
                        let _ = write!(s, ",\"static\":{}", esc(&def_id_key(tcx, did)));
                    }
                }
                ConstValue::ZeroSized => {
                    s.push_str(",\"zst\":true");
                }
                ConstValue::Slice { .. } => {
                    if let Some(bytes) = v.try_get_slice_bytes_for_diagnostics(tcx) {
                        if let Ok(st) = std::str::from_utf8(bytes) {
                            let _ = write!(s, ",\"str\":{}", esc(st));
                        }
                    }
                }
                ConstValue::Indirect { .. } => {
                    s.push_str(",\"indirect\":true");
                }
            }
        }
        s.push('}');
        s
    }

    fn operand_json(&mut self, owner: DefId, body: &Body<'tcx>, o: &Operand<'tcx>) -> String {
        match o {
            Operand::Copy(p) => format!("{{\"k\":\"copy\",\"place\":{}}}", self.place_json(body, p)),
            Operand::Move(p) => format!("{{\"k\":\"move\",\"place\":{}}}", self.place_json(body, p)),
            Operand::Constant(c) => self.const_json(owner, c),
            #[allow(unreachable_patterns)]
            _ => format!("{{\"k\":\"other\",\"s\":{}}}", esc(&format!("{:?}", o))),
        }
    }

    fn rvalue_json(&mut self, owner: DefId, body: &Body<'tcx>, rv: &Rvalue<'tcx>) -> String {
        let tcx = self.tcx;
        match rv {
            Rvalue::Use(o, ..) => format!("{{\"k\":\"use\",\"op\":{}}}", self.operand_json(owner, body, o)),
            Rvalue::Repeat(o, n) => format!(
                "{{\"k\":\"repeat\",\"op\":{},\"n\":{}}}",
                self.operand_json(owner, body, o),
                esc(&format!("{}", n))
            ),
            Rvalue::Ref(_, bk, p) => format!(
                "{{\"k\":\"ref\",\"mut\":{},\"place\":{}}}",
                matches!(bk, mir::BorrowKind::Mut { .. }),
                self.place_json(body, p)
            ),
            Rvalue::ThreadLocalRef(d) => {
                format!("{{\"k\":\"tls\",\"id\":{}}}", esc(&def_id_key(tcx, *d)))
            }
            Rvalue::RawPtr(k, p) => format!(
                "{{\"k\":\"rawptr\",\"mut\":{},\"place\":{}}}",
                matches!(k, mir::RawPtrKind::Mut),
                self.place_json(body, p)
            ),
            Rvalue::Cast(ck, o, t) => {
                let k = format!("{:?}", ck);
                let k = k.split('(').next().unwrap_or("").to_string();
                format!(
                    "{{\"k\":\"cast\",\"kind\":{},\"op\":{},\"ty\":{},\"from_ty\":{}}}",
                    esc(&k),
                    self.operand_json(owner, body, o),
                    esc(&ty_s(*t)),
                    esc(&ty_s(o.ty(body, tcx)))
                )
            }
            Rvalue::BinaryOp(op, ab) => {
                let (a, b) = &**ab;
                format!(
                    "{{\"k\":\"binop\",\"op\":{},\"a\":{},\"b\":{},\"ty\":{}}}",
                    esc(&format!("{:?}", op)),
                    self.operand_json(owner, body, a),
                    self.operand_json(owner, body, b),
                    esc(&ty_s(a.ty(body, tcx)))
                )
            }
            Rvalue::UnaryOp(op, a) => format!(
                "{{\"k\":\"unop\",\"op\":{},\"a\":{},\"ty\":{}}}",
                esc(&format!("{:?}", op)),
                self.operand_json(owner, body, a),
                esc(&ty_s(a.ty(body, tcx)))
            ),
            Rvalue::Discriminant(p) => {
                let pt = p.ty(body, tcx).ty;
                let mut extra = String::new();
                if let ty::Adt(adt, _) = pt.kind() {
                    if adt.is_enum() {
                        let vs: Vec<String> = adt
                            .discriminants(tcx)
                            .map(|(vi, d)| format!("[{},\"{}\"]", esc(&adt.variant(vi).name.to_string()), d.val))
                            .collect();
                        let _ = write!(
                            extra,
                            ",\"adt\":{},\"variants\":[{}]",
                            esc(&with_no_trimmed_paths!(tcx.def_path_str(adt.did()))),
                            vs.join(",")
                        );
                    }
                }
                format!(
                    "{{\"k\":\"discr\",\"place\":{},\"pty\":{}{}}}",
                    self.place_json(body, p),
                    esc(&ty_s(pt)),
                    extra
                )
            }
            Rvalue::Aggregate(kind, fields) => {
                let fs: Vec<String> = fields.iter().map(|o| self.operand_json(owner, body, o)).collect();
                let mut s = String::from("{\"k\":\"agg\"");
                match &**kind {
                    AggregateKind::Array(t) => {
                        let _ = write!(s, ",\"agg\":\"array\",\"elem_ty\":{}", esc(&ty_s(*t)));
                    }
                    AggregateKind::Tuple => s.push_str(",\"agg\":\"tuple\""),
                    AggregateKind::Adt(d, vi, args, _, _) => {
                        let adt = tcx.adt_def(*d);
                        self.adts_seen.insert(*d);
                        let v = adt.variant(*vi);
                        let names: Vec<String> = v.fields.iter().map(|f| esc(&f.name.to_string())).collect();
                        let substs: Vec<String> =
                            args.iter().map(|a| esc(&with_no_trimmed_paths!(a.to_string()))).collect();
                        if adt.is_enum() {
                            let _ = write!(s, ",\"dv\":\"{}\"", adt.discriminant_for_variant(tcx, *vi).val);
                        }
                        let _ = write!(
                            s,
                            ",\"agg\":\"adt\",\"adt\":{},\"variant\":{},\"vi\":{},\"is_enum\":{},\"field_names\":[{}],\"substs\":[{}]",
                            esc(&with_no_trimmed_paths!(tcx.def_path_str(*d))),
                            esc(&v.name.to_string()),
                            vi.as_usize(),
                            adt.is_enum(),
                            names.join(","),
                            substs.join(",")
                        );
                    }
                    AggregateKind::Closure(d, _) => {
                        let _ = write!(s, ",\"agg\":\"closure\",\"id\":{}", esc(&def_id_key(tcx, *d)));
                    }
                    AggregateKind::Coroutine(d, _) | AggregateKind::CoroutineClosure(d, _) => {
                        let _ = write!(s, ",\"agg\":\"coroutine\",\"id\":{}", esc(&def_id_key(tcx, *d)));
                    }
                    AggregateKind::RawPtr(..) => s.push_str(",\"agg\":\"rawptr\""),
                }
                let _ = write!(s, ",\"fields\":[{}]}}", fs.join(","));
                s
            }
            Rvalue::CopyForDeref(p) => {
                format!("{{\"k\":\"use\",\"op\":{{\"k\":\"copy\",\"place\":{}}}}}", self.place_json(body, p))
            }
            #[allow(unreachable_patterns)]
            other => format!("{{\"k\":\"other\",\"s\":{}}}", esc(&format!("{:?}", other))),
        }
    }

    fn unwind_json(u: &UnwindAction) -> String {
        match u {
            UnwindAction::Cleanup(b) => format!("{}", b.as_usize()),
            _ => "null".to_string(),
        }
    }

    fn block_json(&mut self, owner: DefId, body: &Body<'tcx>, bb: &BasicBlockData<'tcx>) -> String {
        let mut stmts: Vec<String> = Vec::new();
        for st in &bb.statements {
            match &st.kind {
                StatementKind::Assign(b) => {
                    let (p, rv) = &**b;
                    stmts.push(format!(
                        "{{\"k\":\"assign\",\"place\":{},\"rv\":{},\"span\":{},\"exp\":{}}}",
                        self.place_json(body, p),
                        self.rvalue_json(owner, body, rv),
                        esc(&self.span_s(st.source_info.span)),
                        st.source_info.span.from_expansion()
                    ));
                }
                StatementKind::SetDiscriminant { place, variant_index } => {
                    stmts.push(format!(
                        "{{\"k\":\"setdiscr\",\"place\":{},\"vi\":{}}}",
                        self.place_json(body, place),
                        variant_index.as_usize()
                    ));
                }
                StatementKind::Intrinsic(i) => {
                    stmts.push(format!("{{\"k\":\"intrinsic\",\"s\":{}}}", esc(&format!("{:?}", i))));
                }
                _ => {}
            }
        }
        let term = bb.terminator();
        let tspan = esc(&self.span_s(term.source_info.span));
        let texp = term.source_info.span.from_expansion();
        let t = match &term.kind {
            TerminatorKind::Goto { target } => format!("{{\"k\":\"goto\",\"target\":{}}}", target.as_usize()),
            TerminatorKind::SwitchInt { discr, targets } => {
                let ts: Vec<String> =
                    targets.iter().map(|(v, b)| format!("[\"{}\",{}]", v, b.as_usize())).collect();
                format!(
                    "{{\"k\":\"switch\",\"discr\":{},\"discr_ty\":{},\"targets\":[{}],\"otherwise\":{}}}",
                    self.operand_json(owner, body, discr),
                    esc(&ty_s(discr.ty(body, self.tcx))),
                    ts.join(","),
                    targets.otherwise().as_usize()
                )
            }
            TerminatorKind::UnwindResume => "{\"k\":\"resume\"}".to_string(),
            TerminatorKind::UnwindTerminate(_) => "{\"k\":\"terminate\"}".to_string(),
            TerminatorKind::Return => "{\"k\":\"return\"}".to_string(),
            TerminatorKind::Unreachable => "{\"k\":\"unreachable\"}".to_string(),
            TerminatorKind::Drop { place, target, unwind, .. } => format!(
                "{{\"k\":\"drop\",\"place\":{},\"target\":{},\"unwind\":{}}}",
                self.place_json(body, place),
                target.as_usize(),
                Self::unwind_json(unwind)
            ),
            TerminatorKind::Call { func, args, destination, target, unwind, fn_span, .. } => {
                let a: Vec<String> = args.iter().map(|o| self.operand_json(owner, body, &o.node)).collect();
                let aty: Vec<String> = args.iter().map(|o| esc(&ty_s(o.node.ty(body, self.tcx)))).collect();
                format!(
                    "{{\"k\":\"call\",\"func\":{},\"args\":[{}],\"arg_tys\":[{}],\"dest\":{},\"target\":{},\"unwind\":{},\"span\":{},\"exp\":{}}}",
                    self.operand_json(owner, body, func),
                    a.join(","),
                    aty.join(","),
                    self.place_json(body, destination),
                    target.map(|t| t.as_usize().to_string()).unwrap_or("null".into()),
                    Self::unwind_json(unwind),
                    esc(&self.span_s(*fn_span)),
                    fn_span.from_expansion()
                )
            }
            TerminatorKind::TailCall { func, args, .. } => {
                let a: Vec<String> = args.iter().map(|o| self.operand_json(owner, body, &o.node)).collect();
                format!(
                    "{{\"k\":\"tailcall\",\"func\":{},\"args\":[{}]}}",
                    self.operand_json(owner, body, func),
                    a.join(",")
                )
            }
            TerminatorKind::Assert { cond, expected, msg, target, unwind } => {
                let (kind, ops): (String, Vec<String>) = match &**msg {
                    AssertKind::BoundsCheck { len, index } => (
                        "BoundsCheck".into(),
                        vec![self.operand_json(owner, body, len), self.operand_json(owner, body, index)],
                    ),
                    AssertKind::Overflow(op, a, b) => (
                        format!("Overflow:{:?}", op),
                        vec![self.operand_json(owner, body, a), self.operand_json(owner, body, b)],
                    ),
                    AssertKind::OverflowNeg(a) => ("OverflowNeg".into(), vec![self.operand_json(owner, body, a)]),
                    AssertKind::DivisionByZero(a) => {
                        ("DivisionByZero".into(), vec![self.operand_json(owner, body, a)])
                    }
                    AssertKind::RemainderByZero(a) => {
                        ("RemainderByZero".into(), vec![self.operand_json(owner, body, a)])
                    }
                    other => {
                        let k = format!("{:?}", other);
                        (k.split(|c| c == '(' || c == ' ' || c == '{').next().unwrap_or("").to_string(), vec![])
                    }
                };
                format!(
                    "{{\"k\":\"assert\",\"cond\":{},\"expected\":{},\"kind\":{},\"ops\":[{}],\"target\":{},\"unwind\":{}}}",
                    self.operand_json(owner, body, cond),
                    expected,
                    esc(&kind),
                    ops.join(","),
                    target.as_usize(),
                    Self::unwind_json(unwind)
                )
            }
            TerminatorKind::FalseEdge { real_target, .. } => {
                format!("{{\"k\":\"goto\",\"target\":{}}}", real_target.as_usize())
            }
            TerminatorKind::FalseUnwind { real_target, .. } => {
                format!("{{\"k\":\"goto\",\"target\":{}}}", real_target.as_usize())
            }
            other => format!("{{\"k\":\"other\",\"s\":{}}}", esc(&format!("{:?}", other))),
        };
        format!(
            "{{\"cleanup\":{},\"stmts\":[{}],\"term\":{},\"tspan\":{},\"texp\":{}}}",
            bb.is_cleanup,
            stmts.join(","),
            t,
            tspan,
            texp
        )
    }

    fn body_json(&mut self, def_id: DefId, body: &Body<'tcx>, promoted: Option<usize>) -> String {
        let tcx = self.tcx;
        let mut s = String::from("{");
        let mut id = def_id_key(tcx, def_id);
        if let Some(p) = promoted {
            let _ = write!(id, "::promoted[{}]", p);
        }
        let _ = write!(s, "\"id\":{}", esc(&id));
        let _ = write!(s, ",\"path\":{}", esc(&with_no_trimmed_paths!(tcx.def_path_str(def_id))));
        let kind = tcx.def_kind(def_id);
        let _ = write!(s, ",\"def_kind\":{}", esc(&format!("{:?}", kind)));
        let name = tcx.opt_item_name(def_id).map(|n| n.to_string()).unwrap_or_default();
        let _ = write!(s, ",\"name\":{}", esc(&name));
        let _ = write!(s, ",\"span\":{}", esc(&self.span_s(body.span)));
        let _ = write!(s, ",\"exp\":{}", body.span.from_expansion());
        let _ = write!(s, ",\"local\":{}", def_id.is_local());
        if matches!(kind, DefKind::Fn | DefKind::AssocFn) {
            let vis = tcx.visibility(def_id);
            let v = match vis {
                ty::Visibility::Public => "pub".to_string(),
                ty::Visibility::Restricted(m) => {
                    format!("restricted:{}", with_no_trimmed_paths!(tcx.def_path_str(m)))
                }
            };
            let _ = write!(s, ",\"vis\":{}", esc(&v));
            let sig = tcx.fn_sig(def_id).instantiate_identity().skip_norm_wip().skip_binder();
            let ins: Vec<String> = sig.inputs().iter().map(|t| esc(&ty_s(*t))).collect();
            let _ = write!(s, ",\"sig_inputs\":[{}],\"sig_output\":{}", ins.join(","), esc(&ty_s(sig.output())));
        }
        if let Some(parent) = tcx.opt_parent(def_id) {
            let _ = write!(s, ",\"parent\":{}", esc(&def_id_key(tcx, parent)));
            match tcx.def_kind(parent) {
                DefKind::Impl { .. } => {
                    let st = tcx.type_of(parent).instantiate_identity().skip_norm_wip();
                    let _ = write!(s, ",\"impl_self\":{}", esc(&ty_s(st)));
                    if let ty::Adt(adt, _) = st.kind() {
                        let _ = write!(
                            s,
                            ",\"impl_self_adt\":{}",
                            esc(&with_no_trimmed_paths!(tcx.def_path_str(adt.did())))
                        );
                    }
                    if let Some(tr) = tcx.impl_opt_trait_ref(parent) {
                        let tr = tr.instantiate_identity().skip_norm_wip();
                        let _ = write!(
                            s,
                            ",\"impl_trait\":{}",
                            esc(&with_no_trimmed_paths!(tcx.def_path_str(tr.def_id)))
                        );
                        let targs: Vec<String> =
                            tr.args.iter().map(|a| esc(&with_no_trimmed_paths!(a.to_string()))).collect();
                        let _ = write!(s, ",\"impl_trait_args\":[{}]", targs.join(","));
                    }
                    let _ = write!(s, ",\"impl_exp\":{}", tcx.def_span(parent).from_expansion());
                }
                DefKind::Trait => {
                    let _ = write!(
                        s,
                        ",\"in_trait\":{}",
                        esc(&with_no_trimmed_paths!(tcx.def_path_str(parent)))
                    );
                }
                _ => {}
            }
        }
        let _ = write!(s, ",\"arg_count\":{}", body.arg_count);
        let locals: Vec<String> = body
            .local_decls
            .iter()
            .map(|d| {
                format!(
                    "{{\"ty\":{},\"mut\":{},\"user\":{}}}",
                    esc(&ty_s(d.ty)),
                    matches!(d.mutability, mir::Mutability::Mut),
                    false
                )
            })
            .collect();
        let _ = write!(s, ",\"locals\":[{}]", locals.join(","));
        let mut dbg: Vec<String> = Vec::new();
        for v in &body.var_debug_info {
            if let mir::VarDebugInfoContents::Place(p) = &v.value {
                dbg.push(format!("{{\"name\":{},\"place\":{}}}", esc(&v.name.to_string()), self.place_json(body, p)));
            }
        }
        let _ = write!(s, ",\"debug\":[{}]", dbg.join(","));
        let blocks: Vec<String> = body.basic_blocks.iter().map(|bb| self.block_json(def_id, body, bb)).collect();
        let _ = write!(s, ",\"blocks\":[{}]", blocks.join(","));
        s.push('}');
        s
    }

    fn adt_json(&mut self, d: DefId) -> String {
        let tcx = self.tcx;
        let adt = tcx.adt_def(d);
        let mut s = String::from("{");
        let _ = write!(s, "\"path\":{}", esc(&with_no_trimmed_paths!(tcx.def_path_str(d))));
        let _ = write!(s, ",\"id\":{}", esc(&def_id_key(tcx, d)));
        let _ = write!(s, ",\"local\":{}", d.is_local());
        let kind = if adt.is_enum() {
            "enum"
        } else if adt.is_union() {
            "union"
        } else {
            "struct"
        };
        let _ = write!(s, ",\"kind\":\"{}\"", kind);
        let vis = tcx.visibility(d);
        let v = match vis {
            ty::Visibility::Public => "pub".to_string(),
            ty::Visibility::Restricted(m) => format!("restricted:{}", with_no_trimmed_paths!(tcx.def_path_str(m))),
        };
        let _ = write!(s, ",\"vis\":{}", esc(&v));
        let _ = write!(s, ",\"exp\":{}", tcx.def_span(d).from_expansion());
        let _ = write!(s, ",\"span\":{}", esc(&self.span_s(tcx.def_span(d))));
        let mut vs: Vec<String> = Vec::new();
        for v in adt.variants() {
            let mut fs: Vec<String> = Vec::new();
            for f in v.fields.iter() {
                let fty = tcx.type_of(f.did).instantiate_identity().skip_norm_wip();
                let fv = match f.vis {
                    ty::Visibility::Public => "pub".to_string(),
                    ty::Visibility::Restricted(m) => {
                        format!("restricted:{}", with_no_trimmed_paths!(tcx.def_path_str(m)))
                    }
                };
                fs.push(format!(
                    "{{\"name\":{},\"ty\":{},\"vis\":{}}}",
                    esc(&f.name.to_string()),
                    esc(&ty_s(fty)),
                    esc(&fv)
                ));
            }
            vs.push(format!("{{\"name\":{},\"fields\":[{}]}}", esc(&v.name.to_string()), fs.join(",")));
        }
        let _ = write!(s, ",\"variants\":[{}]", vs.join(","));
        if adt.is_enum() {
            let ds: Vec<String> = adt.discriminants(tcx).map(|(_, d)| format!("\"{}\"", d.val)).collect();
            let _ = write!(s, ",\"discrs\":[{}]", ds.join(","));
        }
        s.push('}');
        s
    }
}

struct Cb;

impl rustc_driver::Callbacks for Cb {
    fn after_analysis<'tcx>(
        &mut self,
        _c: &rustc_interface::interface::Compiler,
        tcx: TyCtxt<'tcx>,
    ) -> rustc_driver::Compilation {
        let out_dir = match std::env::var("MINA_FACTS_DIR") {
            Ok(d) => d,
            Err(_) => return rustc_driver::Compilation::Continue,
        };
        if tcx.dcx().has_errors().is_some() {
            return rustc_driver::Compilation::Continue;
        }
        let crate_name = tcx.crate_name(LOCAL_CRATE).to_string();
        if let Ok(only) = std::env::var("MINA_FACTS_ONLY") {
            if !only.split(',').any(|c| c == crate_name) {
                return rustc_driver::Compilation::Continue;
            }
        }
        let extern_wanted: Vec<String> = std::env::var("MINA_FACTS_EXTERN")
            .map(|v| v.split(',').filter(|x| !x.is_empty()).map(|x| x.to_string()).collect())
            .unwrap_or_default();
        let mut cx = Cx { tcx, extern_wanted, extern_found: Vec::new(), adts_seen: HashSet::new() };
        let mut bodies: Vec<String> = Vec::new();
        for ld in tcx.hir_body_owners() {
            let d = ld.to_def_id();
            let kind = tcx.def_kind(d);
            match kind {
                DefKind::Fn | DefKind::AssocFn | DefKind::Closure => {
                    if tcx.is_mir_available(d) || true {
                        let body = tcx.optimized_mir(d);
                        bodies.push(cx.body_json(d, body, None));
                    }
                }
                DefKind::Const { .. } | DefKind::AssocConst { .. } | DefKind::Static { .. } => {
                    let body = tcx.mir_for_ctfe(d);
                    bodies.push(cx.body_json(d, body, None));
                }
                _ => {}
            }
            if matches!(kind, DefKind::Fn | DefKind::AssocFn | DefKind::Closure) {
                let prom = tcx.promoted_mir(d);
                for (i, b) in prom.iter_enumerated() {
                    bodies.push(cx.body_json(d, b, Some(i.as_usize())));
                }
            }
        }
        // external bodies on request (fixed point, bounded)
        let mut done: Vec<DefId> = Vec::new();
        let mut rounds = 0;
        while rounds < 4 {
            rounds += 1;
            let todo: Vec<DefId> = cx.extern_found.iter().copied().filter(|d| !done.contains(d)).collect();
            if todo.is_empty() {
                break;
            }
            for d in todo {
                done.push(d);
                if tcx.is_mir_available(d) {
                    let body = tcx.optimized_mir(d);
                    bodies.push(cx.body_json(d, body, None));
                } else if std::env::var("MINA_FACTS_DEBUG").is_ok() {
                    eprintln!("mina-facts: no MIR for {}", def_id_key(tcx, d));
                }
            }
        }
        // ADTs: all local ones plus those seen
        let mut adt_ids: HashSet<DefId> = cx.adts_seen.clone();
        for ld in tcx.hir_crate_items(()).definitions() {
            let d = ld.to_def_id();
            if matches!(tcx.def_kind(d), DefKind::Struct | DefKind::Enum | DefKind::Union) {
                adt_ids.insert(d);
            }
        }
        let mut adt_ids: Vec<DefId> = adt_ids.into_iter().collect();
        adt_ids.sort_by_key(|d| def_id_key(tcx, *d));
        let adts: Vec<String> = adt_ids.iter().map(|d| cx.adt_json(*d)).collect();
        // impls (for sibling/“exists for exactly” rules)
        let mut impls: Vec<String> = Vec::new();
        for ld in tcx.hir_crate_items(()).definitions() {
            let d = ld.to_def_id();
            if let DefKind::Impl { .. } = tcx.def_kind(d) {
                let st = tcx.type_of(d).instantiate_identity().skip_norm_wip();
                let mut s = format!("{{\"id\":{},\"self_ty\":{}", esc(&def_id_key(tcx, d)), esc(&ty_s(st)));
                if let Some(tr) = tcx.impl_opt_trait_ref(d) {
                    let tr = tr.instantiate_identity().skip_norm_wip();
                    let _ = write!(s, ",\"trait\":{}", esc(&with_no_trimmed_paths!(tcx.def_path_str(tr.def_id))));
                    let targs: Vec<String> =
                        tr.args.iter().map(|a| esc(&with_no_trimmed_paths!(a.to_string()))).collect();
                    let _ = write!(s, ",\"trait_args\":[{}]", targs.join(","));
                }
                let _ = write!(s, ",\"exp\":{}", tcx.def_span(d).from_expansion());
                let _ = write!(s, ",\"span\":{}", esc(&cx.span_s(tcx.def_span(d))));
                let items: Vec<String> = tcx
                    .associated_items(d)
                    .in_definition_order()
                    .map(|it| esc(&it.name().to_string()))
                    .collect();
                let _ = write!(s, ",\"items\":[{}]}}", items.join(","));
                impls.push(s);
            }
        }
        let sess = tcx.sess;
        let mut cfgs: Vec<String> = Vec::new();
        for (k, v) in sess.config.iter() {
            match v {
                Some(v) => cfgs.push(esc(&format!("{}={}", k, v))),
                None => cfgs.push(esc(&k.to_string())),
            }
        }
        cfgs.sort();
        let crate_types: Vec<String> = tcx.crate_types().iter().map(|c| esc(&format!("{:?}", c))).collect();
        let src = sess.local_crate_source_file().map(|p| format!("{:?}", p)).unwrap_or_default();
        let is_test = sess.opts.test;
        let mut out = String::new();
        let _ = write!(
            out,
            "{{\"crate\":{},\"test\":{},\"crate_types\":[{}],\"src\":{},\"cfg\":[{}],\"overflow_checks\":{},\"debug_assertions\":{}",
            esc(&crate_name),
            is_test,
            crate_types.join(","),
            esc(&src),
            cfgs.join(","),
            sess.overflow_checks(),
            sess.opts.debug_assertions
        );
        let _ = write!(out, ",\"bodies\":[{}]", bodies.join(",\n"));
        let _ = write!(out, ",\"adts\":[{}]", adts.join(",\n"));
        let _ = write!(out, ",\"impls\":[{}]}}", impls.join(",\n"));
        // `crate::` (from with_crate_prefix) -> `<crate_name>::`
        let out = {
            let mut o = String::with_capacity(out.len() + 1024);
            let b = out.as_bytes();
            let pat = b"crate::";
            let mut i = 0;
            let mut last = 0;
            while i + pat.len() <= b.len() {
                if &b[i..i + pat.len()] == pat
                    && (i == 0 || !(b[i - 1].is_ascii_alphanumeric() || b[i - 1] == b'_'))
                {
                    o.push_str(&out[last..i]);
                    o.push_str(&crate_name);
                    o.push_str("::");
                    i += pat.len();
                    last = i;
                } else {
                    i += 1;
                }
            }
            o.push_str(&out[last..]);
            o
        };
        // unique file name: crate + test flag + hash of args
        let mut h: u64 = 0xcbf29ce484222325;
        for a in std::env::args() {
            for b in a.bytes() {
                h ^= b as u64;
                h = h.wrapping_mul(0x100000001b3);
            }
        }
        let fname = format!(
            "{}/{}-{}-{:016x}.json",
            out_dir,
            crate_name,
            if is_test { "test" } else { "lib" },
            h
        );
        let tmp = format!("{}.tmp{}", fname, std::process::id());
        std::fs::write(&tmp, out).expect("mina-facts: cannot write fact file");
        std::fs::rename(&tmp, &fname).expect("mina-facts: cannot rename fact file");
        rustc_driver::Compilation::Continue
    }
}

fn main() {
    let mut args: Vec<String> = std::env::args().collect();
    // RUSTC_WORKSPACE_WRAPPER: argv[1] is the path of the real rustc; drop it.
    if args.len() > 1 && (args[1].ends_with("rustc") || args[1].contains("/rustc")) {
        args.remove(1);
    }
    rustc_driver::run_compiler(&args, &mut Cb);
}
