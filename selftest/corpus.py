"""Corpus for testing the checker both ways (DESIGN.md section 8).

MUTANTS: behaviour-changing edits that compile and keep the 46 pinned tests green; the named rule must fire.
REFACTORS: behaviour-preserving edits; every listed check must stay silent.
Each entry: (id, file, old, new, [properties], expected-substring-of-a-violation-key or None)."""

MUTANTS = [
    ("unfix-F1", "core/src/timeline.rs",
     """    fn from(mut value: TimelineConfiguration<Data>) -> Self {
        // Sort before anything is derived from the keyframe order; the boundary times must be in
        // the same (sorted) order as the keyframes themselves.
        value
            .keyframes
            .sort_by(|a, b| a.normalized_time.total_cmp(&b.normalized_time));
        Self {
            timescale: value.create_timescale(),
            boundary_times: value.get_boundary_times(),
            default_easing: value.default_easing,
            keyframes: value.keyframes,
        }
    }""",
     """    fn from(value: TimelineConfiguration<Data>) -> Self {
        let mut args = Self {
            timescale: value.create_timescale(),
            boundary_times: value.get_boundary_times(),
            default_easing: value.default_easing,
            keyframes: value.keyframes,
        };
        args.keyframes
            .sort_by(|a, b| a.normalized_time.total_cmp(&b.normalized_time));
        args
    }""", ["C11"], "derived-before-sort"),
    ("unfix-F2", "core/src/animator.rs",
     """                } else if will_animate {
                    // Another animation takes over; a later return to the paused state has to blend
                    // from wherever that one leaves off instead of resuming a stale position.
                    self.paused_animation = None;
                }""", "                }", ["C04", "C05"], "stale-pause-record-kept"),
    ("unfix-F3", "core/src/time_scale.rs", "(times as u64 + 1) as f32", "(times + 1) as f32", ["C20"], "undischarged"),
    ("unfix-F5", "bevy/src/animator.rs", "if animator.state == AnimationState::Playing || will_end {",
     "if animator.state == AnimationState::Playing {", ["C18"], "ended-without-final-update"),
    ("c01-easing-from-end", "core/src/timeline_helpers.rs", "let easing = &start_frame.easing;", "let easing = &end_frame.easing;",
     ["C01"], "easing-from-wrong-frame"),
    ("c01-neighbour", "core/src/timeline_helpers.rs", "self.get_frame(index_at - 1, enable_start_override)?,",
     "self.get_frame(index_at, enable_start_override)?,", ["C01"], "bounding-pair-wrong"),
    ("c01-index-push-conditional", "core/src/timeline_helpers.rs",
     """            frame_index_map.push(converted_frames.len().max(1) - 1);
        }""", """        }
        frame_index_map.push(converted_frames.len().max(1) - 1);""", ["C01"], "index-map-not-parallel"),
    ("c01-master-index", "core/src/timeline.rs", "Err(next_index) => next_index.max(1) - 1,", "Err(next_index) => next_index.max(1),",
     ["C01"], "master-index-wrong"),
    ("c01-fraction", "core/src/timeline_helpers.rs", "let x = (time - start_frame.normalized_time) / duration;",
     "let x = (end_frame.normalized_time - time) / duration;", ["C01"], "fraction-wrong"),
    ("c02-no-hold", "core/src/time_scale.rs", "if rem == 0.0 && quot >= 1.0 {", "if false && rem == 0.0 && quot >= 1.0 {", ["C02"],
     "wraps-before-end-value"),
    ("c03-threshold", "core/src/time_scale.rs", "true if cycle_ratio > 0.5 => ((1.0 - cycle_ratio) * 2.0, true),",
     "true if cycle_ratio > 0.4 => ((1.0 - cycle_ratio) * 2.0, true),", ["C03"], "fold-threshold"),
    ("c03-factor", "core/src/time_scale.rs", "true => (cycle_ratio * 2.0, false),", "true => (cycle_ratio * 2.5, false),", ["C03"],
     "rise-not-2r"),
    ("c03-swapped-args", "core/src/timeline.rs",
     "TimeScale::new(self.duration_seconds, self.delay_seconds, self.repeat, self.reverse)",
     "TimeScale::new(self.delay_seconds, self.duration_seconds, self.repeat, self.reverse)", ["C03"], "metadata-flow"),
    ("c06-clamp-dt", "core/src/animator.rs", "Duration::from_secs_f32(elapsed_seconds)\n        };",
     "Duration::from_secs_f32(elapsed_seconds.min(0.1))\n        };", ["C06"], "accumulator-not-old-plus-exact-elapsed"),
    ("c07-strict", "core/src/animator.rs", "self.state_duration.as_secs_f32() >= current_timeline.duration()",
     "self.state_duration.as_secs_f32() > current_timeline.duration()", ["C07"], "end-test-wrong"),
    ("c08-unconditional-write", "macros/src/derive_animate.rs",
     """            if let Some(#field_name) = self
                .#sub_name
                .value_at(normalized_time, frame_index, enable_start_override)
            {
                target.#field_name = #field_name;
            }""",
     """            target.#field_name = self
                .#sub_name
                .value_at(normalized_time, frame_index, enable_start_override).unwrap_or_default();""", ["C08"],
     "field-wired-to-wrong-sub-timeline"),
    ("c09-merge-override", "core/src/timeline_helpers.rs",
     "            self.start_frame_override = Some(first_frame.with_value(value));",
     "            if self.start_frame_override.is_none() { self.start_frame_override = Some(first_frame.with_value(value)); }",
     ["C09"], "override-merges"),
    ("c10-flag", "core/src/timeline.rs", "(t, !loop_state.is_repeating && !loop_state.is_reversing),", "(t, !loop_state.is_repeating),",
     ["C10", "C04"], "override-flag-wrong"),
    ("c11-comparator", "core/src/timeline.rs", ".sort_by(|a, b| a.normalized_time.total_cmp(&b.normalized_time));",
     ".sort_by(|a, b| b.normalized_time.total_cmp(&a.normalized_time));", ["C11"], "comparator-not-total-ascending"),
    ("c12-rev", "core/src/timeline.rs", "for timeline in &self.timelines {", "for timeline in self.timelines.iter().rev() {", ["C12"],
     "traversal-not-ordered"),
    ("c12-delay-getter", "core/src/timeline.rs", ".map(|t| t.delay())", ".map(|t| t.duration())", ["C12"], "mapper-wrong-getter"),
    ("c13-constant", "core/src/easing.rs", "cubic_bezier(0.33, 1.0, 0.68, 1.0)", "cubic_bezier(0.33, 1.0, 0.86, 1.0)", ["C13"],
     "control-point-differs"),
    ("c13-arm-swap", "core/src/easing.rs", "Self::InQuad => EASE_IN_QUAD.calc(x),", "Self::InQuad => EASE_OUT_QUAD.calc(x),", ["C13"],
     "control-point-differs"),
    ("c14-component", "core/src/glam.rs", "self.z.lerp(&b.z, t))", "self.z.lerp(&b.y, t))", ["C14"], "component-mismatch"),
    ("c14-form", "core/src/interpolation.rs", "self * (1.0 - x) + y1 * x", "self + x * (y1 - self)", ["C14", "C02"], "endpoint-not-exact"),
    ("c15-ms", "macros/src/fn_timeline.rs", '"ms" => Ok(0.001),', '"ms" => Ok(0.01),', ["C15"], "macro-differs-from-builder"),
    ("c15-after", "macros/src/fn_timeline.rs", "quote! { .delay_seconds(#delay_seconds) }", "quote! { .duration_seconds(#delay_seconds) }",
     ["C15"], "macro-differs-from-builder"),
    ("c15-new-suffix", "macros/src/fn_timeline.rs", '"s" | "ms" => config.duration = Some(input.parse()?),',
     '"s" | "ms" | "sec" => config.duration = Some(input.parse()?),', ["C15"], "unvalidated-suffix"),
    ("c16-first-state-only", "macros/src/fn_animator.rs", "for state in &state_mapping.states {",
     "for state in state_mapping.states.iter().take(1) {", ["C16"], "macro-differs-from-builder"),
    ("c17-keyframe-from-skips", "macros/src/derive_animate.rs", "keyframe = keyframe.#field_name(target.#field_name);",
     'if stringify!(#field_name) != "c" { keyframe = keyframe.#field_name(target.#field_name); }', ["C17"], "keyframe-from-wrong"),
    ("c17-getter-doubles", "macros/src/derive_animate.rs", "|keyframe| keyframe.#field_name,", "|keyframe| keyframe.#field_name.map(|v| v + v),",
     ["C17", "C01"], "sub-timeline-wired-wrong"),
    ("c18-else-if", "bevy/src/animator.rs", "if animator.state == AnimationState::Waiting && position_secs >= timeline_delay {",
     "else if animator.state == AnimationState::Waiting && position_secs >= timeline_delay {", ["C18"], "waiting-past-delay"),
    ("c18-event-state", "bevy/src/animator.rs", "events.send(AnimationStateChanged::new(entity, animator.state));",
     "events.send(AnimationStateChanged::new(entity, AnimationState::Playing));", ["C18"], "event-wrong"),
    ("c19-no-reset", "bevy/src/selection.rs", "            animator.reset();\n", "", ["C19"], "not-reset"),
    ("c19-no-blend", "bevy/src/selection.rs", "next_timeline.start_with(current_values);", "", ["C19"], "blend-missing-or-wrong"),
    ("c19-any-state", "bevy/src/selection.rs", "if state != &AnimationState::Ended {", "if state == &AnimationState::Waiting {", ["C19"],
     "chain-fires-wrongly"),
    ("c20-zero-length-guard", "core/src/timeline_helpers.rs", "    if duration == 0.0 {\n        return start_frame.value.clone();\n    }\n", "",
     ["C20", "C01"], "undischarged"),
    # vacuity probes added after seeded round 3: a *missing* test must not let a rule pass by default
    ("c01-no-synthetic-start", "core/src/timeline_helpers.rs",
     "if converted_frames.is_empty() && keyframe.normalized_time > 0.0 {", "if false {", ["C01", "C08"], "start-frame-not-decided"),
    ("c18-never-ends", "bevy/src/animator.rs",
     "        if position_secs >= timeline_duration && animator.state != AnimationState::Ended {\n            animator.state = AnimationState::Ended;\n            state_changed = true;\n        }\n",
     "", ["C18"], "end-test-missing"),
    ("c12-ordinal-infinite", "core/src/timeline.rs", "Repeat::Infinite => u32::MAX,", "Repeat::Infinite => 0,", ["C12"], "repeat-order-wrong"),
    ("c03-raw-time-quot", "core/src/time_scale.rs", "let (quot, rem) = (time / self.duration, time % self.duration);",
     "let (quot, rem) = ((time + self.delay) / self.duration, time % self.duration);", ["C03"], "raw-time-used"),
    # deletion mutants: a whole test / step removed (each compiles and keeps the pinned suite green)
    ("del-same-state-return", "core/src/animator.rs", "        if state == &self.current_state {\n            return;\n        }\n", "",
     ["C04", "C05"], "same-state"),
    ("del-pause-record", "core/src/animator.rs",
     "                if was_animating && !will_animate {\n                    self.paused_animation = Some((self.current_state.clone(), self.state_duration));\n                } else if will_animate {",
     "                if will_animate {", ["C04", "C05"], "interruption-not-decided"),
    ("del-blend", "core/src/animator.rs", "                self.blend_next_timeline(state);\n", "", ["C04", "C05"], "blend-missing-or-wrong"),
    ("del-final-update", "core/src/animator.rs", "        self.current_state = state.clone();\n        self.update_current_values();",
     "        self.current_state = state.clone();", ["C04", "C05"], "final-update-missing-or-wrong"),
    ("del-time-reset", "core/src/animator.rs", "                self.state_duration = Duration::ZERO;\n", "", ["C04", "C05"], "restart-time-not-zero"),
    ("del-advance-update", "core/src/animator.rs",
     "        self.state_duration = self.state_duration.saturating_add(elapsed);\n        self.update_current_values();",
     "        self.state_duration = self.state_duration.saturating_add(elapsed);", ["C06", "C05"], None),
    ("del-enabled-check", "bevy/src/animator.rs", "        if !animator.enabled {\n            continue;\n        }\n", "", ["C18"],
     "enabled-not-checked"),
    ("del-same-key-check", "bevy/src/selection.rs",
     "        if selector\n            .previous_key\n            .as_ref()\n            .is_some_and(|k| k == &selector.timeline_key)\n        {\n            continue;\n        }\n",
     "", ["C19"], "same-key-not-excluded"),
    ("del-empty-return", "core/src/timeline_helpers.rs", "        if !has_frame_data {\n            return Self::empty();\n        }\n", "",
     ["C01", "C08"], "has-data-not-decided"),
    ("del-has-data-preset", "core/src/timeline_helpers.rs", "let mut has_frame_data = false;", "let mut has_frame_data = true;",
     ["C01", "C08"], "has-data-preset"),
    ("del-none-end-test", "core/src/time_scale.rs", "            Repeat::None if time > self.duration => return self.position_ended(),\n", "",
     ["C02", "C03", "C07"], "finite-repeat-never-ends"),
    ("del-reverse-arm", "core/src/time_scale.rs", "            true if cycle_ratio > 0.5 => ((1.0 - cycle_ratio) * 2.0, true),\n", "",
     ["C03", "C10"], None),
    ("del-ended-reverse", "core/src/time_scale.rs", "let normalized_time = if self.reverse { 0.0 } else { 1.0 };", "let normalized_time = 1.0;",
     ["C02", "C03"], "terminal-position-wrong"),
    ("del-last-frame-case", "core/src/timeline_helpers.rs",
     "        } else if index_at == self.frames.len() - 1 {\n            Some([frame_at, frame_at])\n        } else {", "        } else {",
     ["C01", "C02"], "spurious-none"),
    ("del-clamp", "core/src/timeline_helpers.rs", "let normalized_time = normalized_time.clamp(0.0, 1.0);", "", ["C01"], "position-not-clamped"),
    ("del-merged-start-with", "core/src/timeline.rs",
     "        for timeline in self.timelines.iter_mut() {\n            timeline.start_with(values);\n        }", "        let _ = values;",
     ["C12", "C10", "C04"], None),
    ("del-prepare-empty-check", "core/src/timeline.rs", "    if boundary_times.is_empty() {\n        return None;\n    }\n", "", ["C10", "C08"],
     None),
    ("del-unanimated-ended", "core/src/animator.rs", "            return true;\n        };\n        self.state_duration",
     "            return false;\n        };\n        self.state_duration", ["C07"], "no-timeline-not-ended"),
    ("del-rounding", "core/src/interpolation.rs", "Self::from_f32(result_f32.round())", "Self::from_f32(result_f32)", ["C14"],
     "integer-lerp-shape"),
    ("del-reset-state", "bevy/src/animator.rs", "        self.state = AnimationState::None;\n", "", ["C18", "C19"], None),
    ("del-system-order", "bevy/src/lib.rs", "(chain_animations::<K, T>, select_animation::<K, T>).before(animate::<T>),",
     "(chain_animations::<K, T>, select_animation::<K, T>),", ["C19"], "system-ordering"),
    ("del-derive-start-with", "macros/src/derive_animate.rs", "                #(#start_value_assignments)*\n", "", ["C17", "C04", "C10"], None),
    ("derive-update-skips-delay", "macros/src/derive_animate.rs", "                #(#value_assignments)*\n",
     "                if time < self.timescale.get_delay() { return; }\n                #(#value_assignments)*\n", ["C10", "C17", "C01", "C08"],
     "sub-timeline-not-consulted"),
    ("del-advance-guard", "core/src/animator.rs",
     "        let elapsed = if elapsed_seconds >= Duration::MAX.as_secs_f32() {\n            Duration::MAX\n        } else {\n            Duration::from_secs_f32(elapsed_seconds)\n        };",
     "        let elapsed = Duration::from_secs_f32(elapsed_seconds);", ["C20"], None),
    ("del-animator-default-state", "macros/src/fn_animator.rs", "                #default_state_assignment\n", "", ["C16"], None),
    ("c20-lerp-difference", "core/src/interpolation.rs", "        self * (1.0 - x) + y1 * x\n", "        self + (y1 - self) * x\n", ["C20"],
     "intermediate-unbounded"),
]

REFACTORS = [
    ("r-inline-helpers", "core/src/animator.rs",
     """                self.blend_next_timeline(state);
                self.state_duration = Duration::ZERO;""",
     """                if let Some(next_timeline) = self.timelines.get_mut(state) {
                    next_timeline.start_with(&self.current_values);
                }
                self.state_duration = Duration::ZERO;""", ["C04", "C05", "C06", "C07"]),
    ("r-match-instead-of-if-let", "core/src/animator.rs",
     """        if let Some(timeline) = self.timelines.get(&self.current_state) {
            timeline.update(&mut self.current_values, self.state_duration.as_secs_f32());
        }""",
     """        match self.timelines.get(&self.current_state) {
            Some(timeline) => timeline.update(&mut self.current_values, self.state_duration.as_secs_f32()),
            None => {}
        }""", ["C04", "C05", "C06"]),
    ("r-rename-private-field", "core/src/animator.rs", "paused_animation", "paused", ["C04", "C05", "C06", "C07"]),
    ("r-is-ended-reordered", "core/src/animator.rs", "self.state_duration.as_secs_f32() >= current_timeline.duration()",
     "current_timeline.duration() <= self.state_duration.as_secs_f32()", ["C07"]),
    ("r-extract-helper", "core/src/time_scale.rs",
     """        let cycle_ratio = cycle_time / self.duration;""",
     """        let cycle_ratio = self.ratio(cycle_time);""", ["C02", "C03", "C10", "C20"]),
    # (`sort_unstable_by` was listed here until seeded change S7-C01 showed that it is not behaviour-preserving: with more than
    # 32 keyframes two keyframes at one position can change places; it is now the mutant `sort-unstable`)
    ("r-sort-by-key", "core/src/timeline.rs", "            .sort_by(|a, b| a.normalized_time.total_cmp(&b.normalized_time));",
     "            .sort_by(|b, a| b.normalized_time.total_cmp(&a.normalized_time));", ["C11", "C01"]),
    ("r-reorder-statements", "core/src/timeline_helpers.rs",
     """    let easing = &start_frame.easing;
    let x = (time - start_frame.normalized_time) / duration;""",
     """    let x = (time - start_frame.normalized_time) / duration;
    let easing = &start_frame.easing;""", ["C01", "C20"]),
    ("r-merged-iter", "core/src/timeline.rs", "for timeline in &self.timelines {", "for timeline in self.timelines.iter() {", ["C12", "C08"]),
    ("r-setter-order", "macros/src/derive_animate.rs", "    let setters = target_fields.iter().map(|f| {", "    let setters = target_fields.iter().rev().map(|f| {",
     ["C17", "C08"]),
    ("r-macro-internal", "macros/src/fn_timeline.rs",
     """    let reverse_setter = config.reverse.map(|_| quote! { .reverse(true) });""",
     """    let reverse_setter = match config.reverse {
        Some(_) => Some(quote! { .reverse(true) }),
        None => None,
    };""", ["C15", "C16"]),
    ("r-getter-identity-map", "macros/src/derive_animate.rs", "|keyframe| keyframe.#field_name,", "|keyframe| keyframe.#field_name.map(|v| v),",
     ["C17", "C01", "C08"]),
    ("r-animate-local", "bevy/src/animator.rs", "        let mut state_changed = false;\n        if animator.state == AnimationState::None {",
     "        let mut state_changed = false;\n        let was_none = animator.state == AnimationState::None;\n        if was_none {", ["C18"]),
    ("r-chain-if-let", "bevy/src/selection.rs",
     """        let Ok((mut selector, chain)) = selector_query.get_mut(*entity) else {
            continue;
        };
        if let Some(next_key) = chain.next_keys.get(&selector.timeline_key) {
            selector.timeline_key = next_key.clone();
        }""",
     """        if let Ok((mut selector, chain)) = selector_query.get_mut(*entity) {
            if let Some(next_key) = chain.next_keys.get(&selector.timeline_key) {
                selector.timeline_key = next_key.clone();
            }
        }""", ["C19"]),
]

REFACTORS += [
    ("r-not-started-compare", "core/src/time_scale.rs",
     """        let time = time - self.delay;
        if time < 0.0 {
            return TimeScalePosition::NotStarted;
        }""",
     """        if time < self.delay {
            return TimeScalePosition::NotStarted;
        }
        let time = time - self.delay;""", ["C02", "C03", "C10", "C20", "C07"]),
    ("r-saturating-sub", "core/src/timeline.rs", "Err(next_index) => next_index.max(1) - 1,", "Err(next_index) => next_index.saturating_sub(1),",
     ["C01", "C20", "C10"]),
    ("r-position-add", "bevy/src/animator.rs", "animator.timeline_position += time.delta();",
     "animator.timeline_position = animator.timeline_position + time.delta();", ["C18"]),
    ("r-reverse-if", "core/src/time_scale.rs",
     """        let (normalized_time, is_reversing) = match self.reverse {
            true if cycle_ratio > 0.5 => ((1.0 - cycle_ratio) * 2.0, true),
            true => (cycle_ratio * 2.0, false),
            false => (cycle_ratio, false),
        };""",
     """        let (normalized_time, is_reversing) = if self.reverse {
            if cycle_ratio > 0.5 {
                ((1.0 - cycle_ratio) * 2.0, true)
            } else {
                (cycle_ratio * 2.0, false)
            }
        } else {
            (cycle_ratio, false)
        };""", ["C02", "C03", "C10"]),
    ("r-is-ended-match", "core/src/animator.rs",
     """        let Some(current_timeline) = self.timelines.get(&self.current_state) else {
            return true;
        };
        self.state_duration.as_secs_f32() >= current_timeline.duration()""",
     """        match self.timelines.get(&self.current_state) {
            None => true,
            Some(current_timeline) => self.state_duration.as_secs_f32() >= current_timeline.duration(),
        }""", ["C07"]),
    ("r-event-before-time", "bevy/src/animator.rs",
     """        if animator.state != AnimationState::Ended {
            animator.timeline_position += time.delta();
        }
        if state_changed {
            events.send(AnimationStateChanged::new(entity, animator.state));
        }""",
     """        if state_changed {
            events.send(AnimationStateChanged::new(entity, animator.state));
        }
        if animator.state != AnimationState::Ended {
            animator.timeline_position += time.delta();
        }""", ["C18"]),
]

REFACTORS += [
    ("r-for-each", "core/src/timeline.rs",
     """        for timeline in &self.timelines {
            timeline.update(values, time);
        }""",
     """        self.timelines.iter().for_each(|timeline| timeline.update(values, time));""", ["C12", "C08"]),
]

# extra source appended for refactors that introduce a helper
EXTRA = {
    "r-extract-helper": ("core/src/time_scale.rs", "    fn position_ended(&self) -> TimeScalePosition {",
                         "    fn ratio(&self, cycle_time: f32) -> f32 {\n        cycle_time / self.duration\n    }\n\n    fn position_ended(&self) -> TimeScalePosition {"),
}

# round 5 of the seeded changes: hand-written impls of std traits are inlined, not modelled
_SUB_OLD = """#[derive(Clone, Debug)]
pub struct SubTimeline<Value: Clone> {
    frames: Vec<SplitKeyframe<Value>>,
    frame_index_map: Vec<usize>,
    start_frame_override: Option<SplitKeyframe<Value>>,
}"""
_SUB_NEW = """#[derive(Debug)]
pub struct SubTimeline<Value: Clone> {
    frames: Vec<SplitKeyframe<Value>>,
    frame_index_map: Vec<usize>,
    start_frame_override: Option<SplitKeyframe<Value>>,
}

impl<Value: Clone> Clone for SubTimeline<Value> {
    fn clone(&self) -> Self {
        Self { frames: self.frames.clone(), frame_index_map: self.frame_index_map.clone(), start_frame_override: %s }
    }
}"""
MUTANTS += [
    ("clone-drops-override", "core/src/timeline_helpers.rs", _SUB_OLD, _SUB_NEW % "None", ["C09"], "clone-not-fieldwise"),
    ("count-rounded-early", "core/src/time_scale.rs", "(self.repeat.as_ordinal() as u64 + 1) as f32",
     "(self.repeat.as_ordinal() as f32 + 1.0)", ["C03", "C07"], "count-rounded-before-increment"),
]
REFACTORS += [
    ("r-clone-by-hand", "core/src/timeline_helpers.rs", _SUB_OLD, _SUB_NEW % "self.start_frame_override.clone()",
     ["C09", "C04", "C10", "C17", "C01"]),
    ("r-count-in-f64", "core/src/time_scale.rs", "(self.repeat.as_ordinal() as u64 + 1) as f32",
     "(self.repeat.as_ordinal() as f64 + 1.0) as f32", ["C03", "C07", "C02", "C20"]),
]

# exact shortcuts in a lerp are harmless; inexact ones are not (round 6 of the seeded changes)
_INT_LERP = "                let result_f32 = (*self as f32).lerp(&(*y1 as f32), x);"
_F32_LERP = "        self * (1.0 - x) + y1 * x\n    }\n}\n\nimpl Lerp for f64 {"
REFACTORS += [
    ("r-lerp-exact-shortcuts", "core/src/interpolation.rs", _INT_LERP,
     "                if x == 0.0 {\n                    return *self;\n                }\n                if x == 1.0 {\n                    return *y1;\n                }\n" + _INT_LERP,
     ["C14", "C02", "C04", "C17", "C01", "C20"]),
    ("r-lerp-same-shortcut", "core/src/interpolation.rs", _F32_LERP,
     "        if self == y1 {\n            return *self;\n        }\n" + _F32_LERP, ["C14", "C02", "C04", "C17", "C01", "C20"]),
]
MUTANTS += [
    ("lerp-clamped-shortcuts", "core/src/interpolation.rs", _INT_LERP,
     "                if x <= 0.0 {\n                    return *self;\n                }\n                if x >= 1.0 {\n                    return *y1;\n                }\n" + _INT_LERP,
     ["C14", "C17"], "lerp-shape"),
    ("lerp-tolerance-shortcut", "core/src/interpolation.rs", _F32_LERP,
     "        if (y1 - self).abs() < f32::EPSILON {\n            return *self;\n        }\n" + _F32_LERP, ["C14", "C17"], "lerp-shape"),
]

# round 7 of the seeded changes
MUTANTS += [
    ("sort-unstable", "core/src/timeline.rs", ".sort_by(|a, b| a.normalized_time.total_cmp(&b.normalized_time));",
     ".sort_unstable_by(|a, b| a.normalized_time.total_cmp(&b.normalized_time));", ["C01", "C11", "C17", "C04"], "sort-not-stable"),
    ("merged-delay-seeded-with-infinity", "core/src/timeline.rs",
     """            .min_by(|a, b| a.partial_cmp(b).unwrap_or(Ordering::Less))
            .unwrap_or(0.)""", "            .fold(f32::INFINITY, f32::min)", ["C12", "C20"], "fold-init-wrong"),
]
