#!/bin/bash
# usage: mutscr.sh <file-in-repo> <old> <new> <prop> [<prop>...]   like mut.sh but on a scratch copy of /repo's HEAD (MINA_REPO)
f=$1; old=$2; new=$3; shift 3
d=$(mktemp -d /tmp/mina-mut-XXXXXX)
git -C /repo archive HEAD | tar -x -C $d
python3 - "$d/$f" "$old" "$new" <<'PY' || { rm -rf $d; exit 2; }
import sys
f,old,new=sys.argv[1:4]
s=open(f).read()
assert s.count(old)>=1, "pattern not found"
open(f,'w').write(s.replace(old,new,1))
PY
for p in "$@"; do (cd /verif && MINA_REPO=$d ./verif check $p 2>&1 | grep -E "VIOLATION|KNOWN|obligation|^  C" | cut -c1-${W:-330}); done
rm -rf $d
