#!/usr/bin/env python3
"""Rebuilds seeded/MATRIX.md and the detected_by field of seeded/*/meta.json from the logs of `seeded_matrix.py --scratch`
runs that were split over several background jobs.   usage: matrix_from_logs.py <log> [<log> ...]"""
import json
import os
import re
import sys

VERIF = os.path.dirname(os.path.dirname(os.path.abspath(__file__)))
rows = {}
for p in sys.argv[1:]:
    for line in open(p):
        m = re.match(r"^(S\d+-C\d\d) (C\d\d) -> (\[.*\])\s*$", line)
        if m:
            rows[m.group(1)] = (m.group(2), eval(m.group(3)))
with open(os.path.join(VERIF, "seeded", "MATRIX.md"), "w") as f:
    f.write("# Seeded changes vs. checks\n\nEach row: an independently produced change that breaks the named property while "
            "compiling and keeping the pinned suite green; the checks that raise a violation on it (every change applied to a "
            "scratch copy of /repo's HEAD, all twenty quick checks run on it).\n\n| seeded | breaks | checks that fire | "
            "target check fires |\n|---|---|---|---|\n")
    for sid in sorted(rows, key=lambda s: (int(s[1:s.index("-")]), s)):
        prop, fired = rows[sid]
        f.write("| %s | %s | %s | %s |\n" % (sid, prop, ", ".join(fired) or "-", "yes" if prop in fired else "NO"))
        mp = os.path.join(VERIF, "seeded", sid, "meta.json")
        if os.path.exists(mp):
            meta = json.load(open(mp))
            meta["detected_by"] = fired
            meta.pop("first_reports", None)
            json.dump(meta, open(mp, "w"), indent=1)
print(len(rows), "rows;", sum(1 for (p, fr) in rows.values() if p not in fr), "target misses")
