#!/bin/bash
# usage: scr.sh <scratch-root> [props...]   runs the checks against a scratch copy of /repo (MINA_REPO), prints violations
root=$1; shift
props="$@"; [ -z "$props" ] && props="C01 C02 C03 C04 C05 C06 C07 C08 C09 C10 C11 C12 C13 C14 C15 C16 C17 C18 C19 C20"
cd /verif
for p in $props; do MINA_REPO=$root ./verif check $p 2>&1 | grep -E "^  C|obligation" | cut -c1-${W:-300} | awk '/obligation/{print} /^  C/{n++; if(n<='${N:-6}')print}'; done
