#!/bin/bash
# usage: seed_try.sh <patch.diff> [props...]   applies the patch to /repo, runs the checks, undoes it straight afterwards
patch=$1; shift
cd /repo
if ! git diff --quiet; then echo "repo dirty"; exit 2; fi
git apply "$patch" || { echo "patch does not apply"; exit 2; }
props="$@"; [ -z "$props" ] && props="C01 C02 C03 C04 C05 C06 C07 C08 C09 C10 C11 C12 C13 C14 C15 C16 C17 C18 C19 C20"
for p in $props; do (cd /verif && ./verif check $p 2>&1 | grep -E "^  C|obligation" | cut -c1-260 | awk -v p=$p '/obligation/{print} /^  C/{n++; if(n<=3)print}'); done
git checkout -- .
git status --short | head -3
