#!/bin/bash
# usage: seed_eval.sh <seed-root> <Cnn> [props...]   scratch copy of /repo HEAD + the agent's patch, run the checks (MINA_REPO), list which fire
root=$1; id=$2; shift 2
d=/tmp/scr/seed-$id; rm -rf $d; mkdir -p $d
git -C /repo archive HEAD | tar -x -C $d
(cd $d && patch -p1 -s < $root/$id.out/patch.diff) || { echo "patch failed"; exit 2; }
props="$@"; [ -z "$props" ] && props="C01 C02 C03 C04 C05 C06 C07 C08 C09 C10 C11 C12 C13 C14 C15 C16 C17 C18 C19 C20"
fired=""
for p in $props; do
  out=$(cd ${VERIF_DIR:-/verif} && MINA_REPO=$d ./verif check $p 2>&1); rc=$?
  if [ $rc -ne 0 ]; then fired="$fired $p"; echo "$out" | grep -E "^  C" | cut -c1-${W:-260} | head -${N:-2}; fi
done
echo "== $id fired:$fired"
rm -rf $d
