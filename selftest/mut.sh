#!/bin/bash
# usage: mut.sh <file-in-repo> <python-replace-old> <new> <prop> [<prop>...]   (in-place, reverted afterwards)
set -u
f=$1; old=$2; new=$3; shift 3
cd /repo
if ! git diff --quiet; then echo "repo dirty"; exit 2; fi
python3 - "$f" "$old" "$new" <<'PY'
import sys
f,old,new=sys.argv[1:4]
s=open(f).read()
assert s.count(old)>=1, "pattern not found"
open(f,'w').write(s.replace(old,new,1))
PY
[ $? -ne 0 ] && { git checkout -- .; exit 2; }
for p in "$@"; do (cd /verif && ./verif check $p 2>&1 | grep -E "VIOLATION|KNOWN|obligation|^  C" | cut -c1-330); done
git checkout -- .
