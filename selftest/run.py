#!/usr/bin/env python3
"""Tests the checker both ways on scratch copies of /repo (never on /repo itself):
     python3 selftest/run.py [mutants|refactors|all] [id-substring]
For each corpus entry: copy HEAD of /repo to a scratch dir outside /repo and /verif, apply the edit, point the checks at
it through MINA_REPO, and compare the outcome with the expectation.  With --compile the edited tree is also built and its
pinned tests are run (slow; done once when an entry is added).  Scratch directories are removed afterwards."""
import os
import shutil
import subprocess
import sys
import tempfile

HERE = os.path.dirname(os.path.abspath(__file__))
VERIF = os.path.dirname(HERE)
sys.path.insert(0, HERE)
import corpus  # noqa: E402


def sh(cmd, cwd=None, env=None):
    p = subprocess.run(cmd, cwd=cwd, env=env, stdout=subprocess.PIPE, stderr=subprocess.STDOUT, text=True, shell=isinstance(cmd, str))
    return p.returncode, p.stdout


def make_copy(dst):
    os.makedirs(dst)
    rc, out = sh("git -C /repo archive HEAD | tar -x -C %s" % dst)
    if rc != 0:
        raise SystemExit("cannot copy /repo: " + out)


def apply_edit(root, f, old, new):
    p = os.path.join(root, f)
    s = open(p).read()
    if old not in s:
        return False
    open(p, "w").write(s.replace(old, new) if f.endswith("animator.rs") and old == "paused_animation" else s.replace(old, new, 1))
    return True


def run_checks(root, props):
    env = dict(os.environ)
    env["MINA_REPO"] = root
    out = {}
    for p in props:
        rc, o = sh([os.path.join(VERIF, "verif"), "check", p], cwd=VERIF, env=env)
        out[p] = (rc, o)
    return out


def main():
    which = sys.argv[1] if len(sys.argv) > 1 else "all"
    filt = [a for a in sys.argv[2:] if not a.startswith("--")]
    compile_too = "--compile" in sys.argv
    base = tempfile.mkdtemp(prefix="mina-selftest-")
    fails = 0
    n = 0
    try:
        entries = []
        if which in ("mutants", "all"):
            entries += [("mutant",) + m for m in corpus.MUTANTS]
        if which in ("refactors", "all"):
            entries += [("refactor",) + r + (None,) for r in corpus.REFACTORS]
        if which in ("refactors", "all"):
            # whole-file behaviour-preserving rewrites produced independently (selftest/refactors/Rxx.diff + notes): all checks
            import glob
            for pf in sorted(glob.glob(os.path.join(HERE, "refactors", "*.diff"))):
                entries.append(("refactor-patch", os.path.basename(pf)[:-5], pf, None, None,
                                ["C%02d" % i for i in range(1, 21)], None))
        for e in entries:
            kind, mid, f, old, new, props, expect = e
            if filt and not any(x in mid for x in filt):
                continue
            n += 1
            root = os.path.join(base, mid)
            make_copy(root)
            if kind == "refactor-patch":
                rc, o = sh("patch -p1 -s < %s" % f, cwd=root)
                ok = rc == 0
            else:
                ok = apply_edit(root, f, old, new)
            if ok and mid in corpus.EXTRA:
                ef, eo, en = corpus.EXTRA[mid]
                ok = apply_edit(root, ef, eo, en)
            if not ok:
                print("SKIP  %-28s pattern not found (the tree moved on?)" % mid)
                fails += 1
                shutil.rmtree(root, ignore_errors=True)
                continue
            if compile_too:
                rc, o = sh("cargo test --workspace --offline -q 2>&1 | tail -5", cwd=root)
                built = "test result: FAILED" not in o and "error" not in o.lower().split("warning")[0]
                print("      build+tests: %s" % ("ok" if built else "FAILED\n" + o))
                shutil.rmtree(os.path.join(root, "target"), ignore_errors=True)
            res = run_checks(root, props)
            if kind == "mutant":
                fired = [p for p, (rc, o) in res.items() if rc == 1 and "VIOLATION" in o]
                named = any(expect in o for (rc, o) in res.values()) if expect else bool(fired)
                good = bool(fired) and named
                print("%s %-28s %s -> fired in %s%s" % ("ok   " if good else "MISS ", mid, props, fired,
                                                       "" if named else " (expected key part '%s' not reported)" % expect))
            else:
                noisy = [p for p, (rc, o) in res.items() if rc != 0]
                good = not noisy
                print("%s %-28s %s -> %s" % ("ok   " if good else "ALARM", mid, props, "silent" if good else "alarm in %s" % noisy))
                if not good:
                    for p in noisy:
                        print("\n".join("        " + l[:300] for l in res[p][1].splitlines() if l.startswith("  C"))[:1500])
            if not good:
                fails += 1
            shutil.rmtree(root, ignore_errors=True)
    finally:
        shutil.rmtree(base, ignore_errors=True)
    print("%d entries, %d not as expected" % (n, fails))
    return 1 if fails else 0


if __name__ == "__main__":
    sys.exit(main())
