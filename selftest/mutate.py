#!/usr/bin/env python3
"""Operator-level mutation campaign (DESIGN.md 8.6).   usage: mutate.py <shard> <of> [--list]

Enumerates small textual mutants of the library's production code (comparison / arithmetic / boolean operators, literals,
min/max, first/last, negated conditions, deleted statements), keeps those that still compile and pass the pinned kind of
tests (`cargo test --workspace --lib --tests`, no doc tests), and runs all twenty checks on each survivor (scratch copy,
MINA_REPO).  One JSON line per mutant on stdout: {"id", "file", "line", "op", "old", "new", "build": ok|fail,
"tests": pass|fail, "fired": [...]}.  Survivors on which no check fires are either equivalent mutants or misses: triaged by
hand.  Never touches /repo."""
import json
import os
import re
import shutil
import subprocess
import sys
import tempfile

VERIF = os.path.dirname(os.path.dirname(os.path.abspath(__file__)))
FILES = ["core/src/animator.rs", "core/src/easing.rs", "core/src/interpolation.rs", "core/src/time_scale.rs",
         "core/src/timeline.rs", "core/src/timeline_helpers.rs", "core/src/glam.rs",
         "macros/src/derive_animate.rs", "macros/src/fn_animator.rs", "macros/src/fn_timeline.rs",
         "bevy/src/animator.rs", "bevy/src/lib.rs", "bevy/src/selection.rs", "bevy/src/traits.rs"]
PROPS = ["C%02d" % i for i in range(1, 21)]

OPS = [
    ("lt-le", r" < ", " <= "), ("le-lt", r" <= ", " < "), ("gt-ge", r" > ", " >= "), ("ge-gt", r" >= ", " > "),
    ("lt-gt", r" < ", " > "), ("gt-lt", r" > ", " < "),
    ("eq-ne", r" == ", " != "), ("ne-eq", r" != ", " == "),
    ("add-sub", r" \+ ", " - "), ("sub-add", r" - ", " + "), ("mul-div", r" \* ", " / "), ("div-mul", r" / ", " * "),
    ("rem-div", r" % ", " / "),
    ("and-or", r" && ", " || "), ("or-and", r" \|\| ", " && "),
    ("true-false", r"\btrue\b", "false"), ("false-true", r"\bfalse\b", "true"),
    ("f0-f1", r"(?<![\w.])0\.0\b", "1.0"), ("f1-f0", r"(?<![\w.])1\.0\b", "0.0"), ("f05", r"(?<![\w.])0\.5\b", "0.25"),
    ("f2", r"(?<![\w.])2\.0\b", "3.0"), ("f001", r"(?<![\w.])0\.01\b", "0.1"),
    ("i1-i0", r"(?<![\w.])1\b(?![\w.])", "0"), ("i0-i1", r"(?<![\w.])0\b(?![\w.])", "1"), ("i1-i2", r"(?<![\w.])1\b(?![\w.])", "2"),
    ("min-max", r"\.min\(", ".max("), ("max-min", r"\.max\(", ".min("), ("minby-maxby", r"\bmin_by\b", "max_by"),
    ("maxby-minby", r"\bmax_by\b", "min_by"), ("first-last", r"\.first\(\)", ".last()"), ("last-first", r"\.last\(\)", ".first()"),
    ("less-greater", r"\bOrdering::Less\b", "Ordering::Greater"), ("greater-less", r"\bOrdering::Greater\b", "Ordering::Less"),
    ("some-none", r"\.is_some\(\)", ".is_none()"), ("none-some", r"\.is_none\(\)", ".is_some()"),
    ("iter-rev", r"\.iter\(\)(?!\.rev)", ".iter().rev()"),
    ("neg-if", r"^(\s*)(?:\} else )?if (?!let )(.+) \{$", None),
    ("del-stmt", r"^(\s*)(self\.[\w.]+ = .+;|[\w.]+\.(?:push|insert|extend|clear|reset|send|start_with|update)\(.*\);|\*?\w+ = .+;|continue;)$", None),
    ("ret-early", r"^(\s*)return (.+);$", None),
]


# a second operator set (MUT_OPS=B): swapped arguments, neighbouring fields / locals of the same type exchanged, `Some(..)`
# results dropped, ranges and lengths off by one
OPS_B = [
    ("arg-swap", r"\((\w[\w.]*), (\w[\w.]*)\)", None),
    ("delay-duration", r"\bdelay\b", "duration"), ("duration-delay", r"\bduration\b", "delay"),
    ("start-end", r"\bstart_frame\b", "end_frame"), ("end-start", r"\bend_frame\b", "start_frame"),
    ("cur-next", r"\bcurrent_state\b", "state"), ("was-will", r"\bwas_animating\b", "will_animate"),
    ("will-was", r"\bwill_animate\b", "was_animating"),
    ("some-to-none", r"(=> |^\s+)Some\(([^()]*|[^()]*\([^()]*\)[^()]*)\)(,?)$", None),
    ("len-minus-1", r"\.len\(\)(?! - 1)", ".len() - 1"), ("drop-minus-1", r" - 1\b", ""),
    ("index-plus-1", r"\[(\w+)\]", None),
    ("rem-quot", r"\brem\b", "quot"), ("quot-rem", r"\bquot\b", "rem"),
    ("x-y", r"\.x\b", ".y"), ("first-second", r"\.0\b(?!\.)", ".1"),
    ("values-target", r"\bcurrent_values\b", "initial_values"),
    ("clone-default", r"\.clone\(\)$", ".clone()"),
    ("self-other", r"\bself\.(\w+), other\.(\w+)", None),
]
if os.environ.get("MUT_OPS") == "B":
    OPS = OPS_B


def production_lines(text):
    """indices of lines that belong to non-test code and are not comments / attributes / imports"""
    lines = text.split("\n")
    out = []
    skip_rest = False
    skip_item = 0
    i = 0
    while i < len(lines):
        ln = lines[i]
        st = ln.strip()
        if st.startswith("#[cfg(test)]"):
            nxt = lines[i + 1].strip() if i + 1 < len(lines) else ""
            if nxt.startswith("mod "):
                skip_rest = True
            else:
                skip_item = 1
        if skip_rest:
            break
        if skip_item:
            # skip the attributed item: until the next blank line
            if st == "" and skip_item > 1:
                skip_item = 0
            else:
                skip_item += 1
            i += 1
            continue
        if st and not st.startswith(("//", "#[", "#![", "use ", "pub use ", "mod ", "pub mod ", "*", "/*")):
            out.append(i)
        i += 1
    return out


def mutants(root):
    ms = []
    for f in FILES:
        p = os.path.join(root, f)
        if not os.path.exists(p):
            continue
        text = open(p).read()
        lines = text.split("\n")
        for i in production_lines(text):
            ln = lines[i]
            code = ln.split("//")[0] if '"' not in ln else ln
            for (name, pat, rep) in OPS:
                m = re.search(pat, code)
                if not m:
                    continue
                if name == "neg-if":
                    new = re.sub(r"if (?!let )(.+) \{$", lambda mm: "if !(%s) {" % mm.group(1), ln, count=1)
                elif name == "del-stmt":
                    new = m.group(1) + "// " + ln.strip()
                elif name == "ret-early":
                    continue
                elif name == "arg-swap":
                    if m.group(1) == m.group(2):
                        continue
                    new = ln[:m.start()] + "(%s, %s)" % (m.group(2), m.group(1)) + ln[m.end():]
                elif name == "some-to-none":
                    new = ln[:m.start()] + m.group(1) + "None" + m.group(3) + ln[m.end():]
                elif name == "index-plus-1":
                    new = ln[:m.start()] + "[%s + 1]" % m.group(1) + ln[m.end():]
                elif name in ("clone-default", "self-other"):
                    continue
                else:
                    new = ln[:m.start()] + re.sub(pat, rep, ln[m.start():], count=1)
                if new != ln:
                    ms.append({"file": f, "line": i + 1, "op": name, "old": ln.strip(), "new": new.strip(), "_new_line": new})
    for k, m in enumerate(ms):
        m["id"] = "M%04d" % k
    return ms


def sh(cmd, cwd=None, env=None, timeout=1800):
    """run in its own process group and kill the whole group on a timeout (a mutant can make the proc macro - and with it
    rustc - loop forever; an orphaned compiler would keep the target-directory lock)"""
    import signal
    p = subprocess.Popen(cmd, cwd=cwd, env=env, stdout=subprocess.PIPE, stderr=subprocess.STDOUT, text=True, shell=True,
                         start_new_session=True)
    try:
        out, _ = p.communicate(timeout=timeout)
        return p.returncode, out
    except subprocess.TimeoutExpired:
        try:
            os.killpg(p.pid, signal.SIGKILL)
        except ProcessLookupError:
            pass
        p.wait()
        return 124, "timeout"


def main():
    shard, of = int(sys.argv[1]), int(sys.argv[2])
    root = tempfile.mkdtemp(prefix="mina-mutate-%d-" % shard)
    try:
        rc, out = sh("git -C /repo archive HEAD | tar -x -C %s" % root)
        ms = mutants(root)
        if "--list" in sys.argv:
            for m in ms:
                print(m["id"], m["file"], m["line"], m["op"], "|", m["old"], "=>", m["new"])
            print(len(ms), "mutants")
            return
        mine = ms[shard::of]
        env = dict(os.environ)
        env["CARGO_NET_OFFLINE"] = "true"
        env["CARGO_TARGET_DIR"] = os.path.join(root, "target")
        # warm build
        sh("cargo test --workspace --offline --lib --tests --no-run", cwd=root, env=env, timeout=3600)
        for m in mine:
            p = os.path.join(root, m["file"])
            orig = open(p).read()
            lines = orig.split("\n")
            lines[m["line"] - 1] = m.pop("_new_line")
            open(p, "w").write("\n".join(lines))
            rec = dict(m)
            rc, out = sh("cargo test --workspace --offline --lib --tests --no-run", cwd=root, env=env, timeout=1800)
            if rc != 0:
                rec["build"] = "fail"
            else:
                rec["build"] = "ok"
                rc, out = sh("cargo test --workspace --offline --lib --tests", cwd=root, env=env, timeout=900)
                rec["tests"] = "pass" if rc == 0 else "fail"
                if rc == 0:
                    fired = []
                    e2 = dict(os.environ)
                    e2["MINA_REPO"] = root
                    for prop in PROPS:
                        rc2, out2 = sh("./verif check %s" % prop, cwd=VERIF, env=e2, timeout=1800)
                        if rc2 != 0:
                            fired.append(prop)
                    rec["fired"] = fired
            print(json.dumps(rec), flush=True)
            open(p, "w").write(orig)
    finally:
        shutil.rmtree(root, ignore_errors=True)


if __name__ == "__main__":
    main()
