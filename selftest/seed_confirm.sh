#!/bin/bash
# usage: seed_confirm.sh <scratch-root> <Cnn> <demo command...>   e.g.  seed_confirm.sh /tmp/seed2 C03 cargo test --offline
# Confirms in the sub-agent's scratch worktree (never in /repo): the worktree is reset to HEAD, patch.diff is applied,
# the pinned suite must pass, the demonstration must fail; the patch is reversed and the demonstration must pass; the
# patch is applied again.  No git stash (refs/stash is shared between worktrees).  Prints one summary line.
root=$1; id=$2; shift 2
wt=$root/$id; out=$root/$id.out
cd $wt || exit 2
git checkout -q -- . && git apply $out/patch.diff || { echo "$id patch does not apply to HEAD"; exit 2; }
suite=$(cargo test --workspace --offline 2>&1 | grep -E "^test result" | awk '{p+=$4; f+=$6} END{print p" passed "f" failed"}')
cd $out/demo
"$@" >$out/with.log 2>&1; with=$?
git -C $wt apply -R $out/patch.diff
"$@" >$out/without.log 2>&1; without=$?
git -C $wt apply $out/patch.diff
echo "$id suite[$suite] demo-with-change=exit$with demo-without=exit$without"
