#!/bin/bash
# usage: seed_confirm.sh <Cnn> <demo command...>     e.g.  seed_confirm.sh C03 cargo run --release --offline
# Confirms in the sub-agent's scratch worktree: the changed tree passes the pinned suite, the demonstration fails with
# the change and passes without it.  Prints one summary line.
id=$1; shift
wt=/tmp/seed/$id; out=/tmp/seed/$id.out
cd $wt || exit 2
suite=$(cargo test --workspace --offline 2>&1 | grep -E "^test result" | awk '{p+=$4; f+=$6} END{print p" passed "f" failed"}')
cd $out/demo
"$@" >/tmp/seed/$id.with.log 2>&1; with=$?
git -C $wt stash -q
"$@" >/tmp/seed/$id.without.log 2>&1; without=$?
git -C $wt stash pop -q
echo "$id suite[$suite] demo-with-change=exit$with demo-without=exit$without"
