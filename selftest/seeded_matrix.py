#!/usr/bin/env python3
"""Runs every registered check against every seeded change (applied to /repo and undone straight afterwards) and writes
seeded/MATRIX.md + the detected_by field of each seeded/<id>/meta.json.   usage: seeded_matrix.py [--scratch] [id-substring ...]
With --scratch the change is applied to a scratch copy of /repo's HEAD instead (checks pointed at it through MINA_REPO), so
/repo is never touched and the run can go on in the background."""
import glob
import json
import os
import shutil
import subprocess
import sys
import tempfile

VERIF = os.path.dirname(os.path.dirname(os.path.abspath(__file__)))
PROPS = ["C%02d" % i for i in range(1, 21)]


def sh(cmd, cwd=None, env=None):
    p = subprocess.run(cmd, cwd=cwd, env=env, stdout=subprocess.PIPE, stderr=subprocess.STDOUT, text=True, shell=True)
    return p.returncode, p.stdout


def main():
    scratch = "--scratch" in sys.argv
    filt = [a for a in sys.argv[1:] if not a.startswith("--")]
    rc, out = sh("git -C /repo status --porcelain --untracked-files=no")
    if out.strip() and not scratch:
        raise SystemExit("/repo has uncommitted changes")
    rows = []
    for d in sorted(glob.glob(os.path.join(VERIF, "seeded", "*"))):
        if not os.path.isdir(d) or (filt and not any(f in d for f in filt)):
            continue
        sid = os.path.basename(d)
        meta_p = os.path.join(d, "meta.json")
        meta = json.load(open(meta_p)) if os.path.exists(meta_p) else {"id": sid}
        env = dict(os.environ)
        root = None
        if scratch:
            root = tempfile.mkdtemp(prefix="mina-seeded-")
            rc, out = sh("git -C /repo archive HEAD | tar -x -C %s && cd %s && patch -p1 -s < %s"
                         % (root, root, os.path.join(d, "patch.diff")))
            env["MINA_REPO"] = root
        else:
            rc, out = sh("git -C /repo apply %s" % os.path.join(d, "patch.diff"))
        if rc != 0:
            print(sid, "patch does not apply:", out)
            if root:
                shutil.rmtree(root, ignore_errors=True)
            continue
        fired = {}
        try:
            for p in PROPS:
                rc, out = sh("./verif check %s" % p, cwd=VERIF, env=env)
                keys = [l.strip().split(": ")[0] for l in out.splitlines() if l.startswith("  C")]
                if rc != 0:
                    fired[p] = keys[:3] or ["(exit %d)" % rc]
        finally:
            if root:
                shutil.rmtree(root, ignore_errors=True)
            else:
                sh("git -C /repo checkout -- .")
        meta["detected_by"] = sorted(fired)
        meta["first_reports"] = {p: k for p, k in fired.items()}
        json.dump(meta, open(meta_p, "w"), indent=1)
        rows.append((sid, meta.get("property", "?"), sorted(fired)))
        print(sid, meta.get("property"), "->", sorted(fired))
    if not filt:
        with open(os.path.join(VERIF, "seeded", "MATRIX.md"), "w") as f:
            f.write("# Seeded changes vs. checks\n\nEach row: an independently produced change that breaks the named property while "
                    "compiling and keeping the pinned suite green; the checks that raise a violation on it.\n\n| seeded | breaks | "
                    "checks that fire | target check fires |\n|---|---|---|---|\n")
            for sid, prop, fired in rows:
                f.write("| %s | %s | %s | %s |\n" % (sid, prop, ", ".join(fired) or "-", "yes" if prop in fired else "NO"))
    sh("git -C /repo status --porcelain --untracked-files=no")


if __name__ == "__main__":
    main()
