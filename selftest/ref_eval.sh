#!/bin/bash
# usage: ref_eval.sh <Rxx>   copy the agent's patch into selftest/refactors, build a scratch copy with it applied, run all checks on it
id=$1; shift
src=/tmp/ref/$id.out
[ -f $src/patch.diff ] && cp $src/patch.diff /verif/selftest/refactors/$id.diff && cp $src/notes.md /verif/selftest/refactors/$id.notes.md
d=/tmp/scr/$id; rm -rf $d; mkdir -p $d
git -C /repo archive HEAD | tar -x -C $d
(cd $d && patch -p1 -s < /verif/selftest/refactors/$id.diff) || { echo "patch failed"; exit 2; }
N=${N:-6} W=${W:-400} /verif/selftest/scr.sh $d "$@" | grep -v " 0 violation"
