#!/usr/bin/env python3
"""Deterministic generator of the witness workspace (DESIGN.md 3.3).

  gen.py <out_dir> <tier> <seed> <repo>

Writes a cargo workspace with four crates that use only mina's public API and macros:
  witness-derive    structs over a family of shapes with #[derive(Animate)]
  witness-timeline  pairs  wN_macro() / wN_ref():  timeline! sentence  vs  builder chain of the documented reading
  witness-animator  pairs  aN_macro() / aN_ref():  animator! block     vs  StateAnimatorBuilder chain
  witness-controls  positive controls: small deliberately-violating functions, one per zero-count rule
and two stand-alone crates for E4 (ill-formed sentences and their compiling twins), plus meta.json describing
what was generated (the rules compare the MIR of the expansions with this description).

The documented reading of the macro grammar is implemented HERE, once, independently of the macro."""
import json
import os
import random
import sys

TYPES = ["f32", "f64", "u8", "i16", "i32", "u32"]


def lit(ty, k):
    """a literal of type ty, different for different k"""
    if ty in ("f32", "f64"):
        return "%d.5" % (k + 1)
    return str(3 * k + 7)


# ---------------------------------------------------------------------------------------------------
# derive family
def derive_shapes(tier, seed):
    S = []

    def shape(name, fields, vis="", remote=None, marks=None, attrs=None, sattrs=None):
        """attrs: {field: (lines before #[animate], lines after it)} - other attributes and doc comments on a field must not
        change whether it counts as marked.  sattrs: (lines before, lines after) the struct's own #[animate(..)] attribute -
        other attributes of the struct (lists like #[allow(..)] / #[repr(..)], doc comments) are none of the derive's business"""
        fs = [(n, t, (marks is not None and n in marks)) for (n, t) in fields]
        S.append({"mod": name.lower(), "name": name, "fields": fs, "vis": vis, "remote": remote, "attrs": attrs or {},
                  "sattrs": sattrs or ([], [])})

    shape("D1", [("x", "f32")])
    shape("D2", [("x", "f32"), ("n", "u8")], sattrs=(["#[allow(dead_code)]"], []))
    shape("D3", [("a", "f32"), ("b", "u8"), ("c", "i32")], marks={"a", "c"})
    shape("D4", [("a", "f64"), ("b", "i16"), ("c", "u32")], marks={"a", "b", "c"})
    shape("D5", [("a", "f32"), ("b", "f64"), ("c", "u8"), ("d", "i16"), ("e", "i32"), ("f", "u32")])
    shape("D6", [("a", "f32"), ("b", "f64"), ("c", "u8"), ("d", "i16"), ("e", "i32"), ("f", "u32")], marks={"b", "d", "f"})
    shape("D7", [("alpha", "f64"), ("size", "i16")], vis="pub", marks={"alpha"},
          sattrs=(["/// A documented struct.", "#[repr(C)]"], ["#[allow(clippy::all)]"]))
    shape("D8", [("p", "u8"), ("q", "u8"), ("r", "f32"), ("s", "i32")], vis="pub(crate)", marks={"p", "q", "s"})
    shape("D9", [("t_x", "f32"), ("x", "f32")], marks={"t_x"})
    shape("P10", [("a", "f32"), ("c", "i32")],
          remote={"name": "R10", "fields": [("c", "i32"), ("extra", "String"), ("a", "f32"), ("z", "u8")], "path": "R10"})
    shape("P11", [("a", "f32"), ("c", "i32"), ("z", "u8")], marks={"c"},
          remote={"name": "R11", "fields": [("z", "u8"), ("c", "i32"), ("label", "String"), ("a", "f32")], "path": "R11"},
          sattrs=(["#[allow(dead_code)]"], ["/// Proxy for R11.", "#[allow(unused)]"]))
    shape("P12", [("v", "u32"), ("w", "f64")], vis="pub",
          remote={"name": "R12", "fields": [("w", "f64"), ("k", "i16"), ("v", "u32")], "path": "crate::remotes::R12",
                  "external_mod": True})
    shape("G13", [("pos", "glam::Vec2"), ("w", "f32")], marks={"pos"})
    shape("D14", [("only", "u32")], marks={"only"}, vis="pub")
    # documented / attributed fields: the marker is recognised wherever it stands among a field's attributes
    shape("A15", [("x", "f32"), ("y", "f32"), ("z_index", "f32")], marks={"x", "y"},
          attrs={"x": (["/// Horizontal position."], []), "y": (["/// Vertical position.", "#[allow(dead_code)]"], []),
                 "z_index": (["/// Stacking order; not animated."], [])})
    shape("A16", [("a", "f32"), ("b", "u8"), ("c", "i32")], marks={"b"},
          attrs={"a": (["/// Not animated.", "#[cfg(all())]"], []), "b": (["#[cfg(all())]"], ["/// The only animated field."]),
                 "c": (["#[allow(unused)]"], [])})
    if tier == "thorough":
        rnd = random.Random(seed * 7919 + 17)
        for i in range(15, 15 + 136):
            n = rnd.randint(1, 6)
            fields = [("f%d" % j, rnd.choice(TYPES)) for j in range(n)]
            k = rnd.choice(["none", "some", "all"])
            marks = None
            if k == "all":
                marks = {f for f, _ in fields}
            elif k == "some" and n > 1:
                m = rnd.randint(1, n - 1)
                marks = set(rnd.sample([f for f, _ in fields], m))
            vis = rnd.choice(["", "pub", "pub(crate)"])
            remote = None
            if rnd.random() < 0.25:
                rf = list(fields) + [("extra_s", "String"), ("extra_n", "u8")]
                rnd.shuffle(rf)
                remote = {"name": "R%d" % i, "fields": rf, "path": "R%d" % i}
            attrs = {}
            if marks and rnd.random() < 0.35:
                for f, _ in fields:
                    pre = rnd.choice([[], ["/// documented"], ["#[allow(dead_code)]"], ["/// documented", "#[cfg(all())]"]])
                    post = rnd.choice([[], [], ["/// trailing doc"]]) if f in marks else []
                    attrs[f] = (pre, post)
            sattrs = None
            if rnd.random() < 0.3:
                pool = ["#[allow(dead_code)]", "/// documented", "#[repr(C)]", "#[allow(unused)]", "#[cfg_attr(all(), allow(dead_code))]"]
                sattrs = (rnd.sample(pool, rnd.randint(0, 2)), rnd.sample(pool, rnd.randint(0, 2)))
            shape(("P%d" if remote else "D%d") % i, fields, vis=vis, remote=remote, marks=marks, attrs=attrs, sattrs=sattrs)
    return S


def derive_source(shapes):
    out = ["// generated by witness/gen.py - do not edit", "#![allow(dead_code, unused_imports, unused_variables)]", ""]
    ext = [s for s in shapes if s["remote"] and s["remote"].get("external_mod")]
    if ext:
        out.append("pub mod remotes {")
        for s in ext:
            r = s["remote"]
            out.append("    #[derive(Clone, Debug, Default, PartialEq)]")
            out.append("    pub struct %s { %s }" % (r["name"], ", ".join("pub %s: %s" % f for f in r["fields"])))
        out.append("}")
    for s in shapes:
        out.append("pub mod %s {" % s["mod"])
        out.append("    use mina::prelude::*;")
        r = s["remote"]
        if r:
            if r.get("external_mod"):
                out.append("    use crate::remotes::%s;" % r["name"])
            else:
                out.append("    #[derive(Clone, Debug, Default, PartialEq)]")
                out.append("    pub struct %s { %s }" % (r["name"], ", ".join("pub %s: %s" % f for f in r["fields"])))
            out.append("    #[derive(Animate)]")
            for line in s.get("sattrs", ([], []))[0]:
                out.append("    " + line)
            out.append("    #[animate(remote = \"%s\")]" % r["path"])
            for line in s.get("sattrs", ([], []))[1]:
                out.append("    " + line)
        else:
            out.append("    #[derive(Animate, Clone, Debug, Default, PartialEq)]")
            for line in s.get("sattrs", ([], []))[0] + s.get("sattrs", ([], []))[1]:
                out.append("    " + line)
        out.append("    %s struct %s {" % (s["vis"], s["name"]))
        for (n, t, m) in s["fields"]:
            pre, post = s.get("attrs", {}).get(n, ([], []))
            for line in pre:
                out.append("        " + line)
            if m:
                out.append("        #[animate]")
            for line in post:
                out.append("        " + line)
            out.append("        %s %s: %s," % (s["vis"] if s["vis"] else "", n, t))
        out.append("    }")
        out.append("}")
    return "\n".join(out) + "\n"


# ---------------------------------------------------------------------------------------------------
# timeline corpus: the documented reading
class Arg:
    def __init__(self, macro, ref, prod):
        self.macro, self.ref, self.prod = macro, ref, prod


def f32lit(x):
    s = repr(float(x))
    return s if ("." in s or "e" in s) else s + ".0"


def dur(text):
    """'2s' '2.5s' '700ms' '1_500ms' 'for 2s'"""
    t = text.replace("for ", "")
    num = t.rstrip("ms").rstrip("s") if t.endswith("ms") else t[:-1]
    v = float(num.replace("_", ""))
    if t.endswith("ms"):
        v = v / 1000.0
    prod = ["duration:" + ("ms" if t.endswith("ms") else "s")]
    if text.startswith("for "):
        prod.append("for")
    prod.append("lit:" + ("float" if "." in num else "int") + ("_" if "_" in num else ""))
    return Arg(text, ".duration_seconds(%s)" % f32lit(v), prod)


def delay(text):
    t = text.replace("after ", "")
    num = t[:-2] if t.endswith("ms") else t[:-1]
    v = float(num.replace("_", ""))
    if t.endswith("ms"):
        v = v / 1000.0
    return Arg(text, ".delay_seconds(%s)" % f32lit(v), ["after", "delay:" + ("ms" if t.endswith("ms") else "s")])


def rep(text):
    if text == "infinite":
        return Arg(text, ".repeat(Repeat::Infinite)", ["infinite"])
    n = int(text[:-1].replace("_", ""))
    return Arg(text, ".repeat(Repeat::Times(%d))" % n, ["repeat:x"])


REVERSE = Arg("reverse", ".reverse(true)", ["reverse"])


def easing(path):
    return Arg(path, ".default_easing(%s)" % path, ["easing"])


def kf(T, pos, fields, default=False):
    """pos: 'from' | 'to' | 'N%'"""
    if pos == "from":
        p, prod = 0.0, "kf:from"
    elif pos == "to":
        p, prod = 1.0, "kf:to"
    else:
        num = pos[:-1].replace("_", "")
        p = float(num) / 100.0
        prod = "kf:%"
    if default:
        return Arg("%s default" % pos, ".keyframe(%s::keyframe_from(&default_values, %s))" % (T, f32lit(p)), [prod, "values:default"])
    body = ", ".join("%s: %s" % (k, v) for k, v in fields)
    chain = "".join(".%s(%s)" % (k, v) for k, v in fields)
    return Arg("%s { %s }" % (pos, body), ".keyframe(%s::keyframe(%s)%s)" % (T, f32lit(p), chain), [prod, "values:braces"])


def sentence(T, args):
    return {"macro": " ".join(a.macro for a in args), "ref": "%s::timeline()%s" % (T, "".join(a.ref for a in args)),
            "prods": sorted({p for a in args for p in a.prod})}


def timeline_corpus(tier, seed):
    T = "Tl"
    A = {"x": "1.5", "y": "2.5", "n": "7"}
    k_from = kf(T, "from", [("x", "0.5")])
    k_to = kf(T, "to", [("x", "9.5"), ("n", "200")])
    k_50 = kf(T, "50%", [("y", "4.5")])
    k_25f = kf(T, "25.5%", [("x", "3.5"), ("y", "1.5")])
    k_40 = kf(T, "40%", [("n", "40")])
    S = []
    add = lambda *args: S.append({"kind": "single", "items": [sentence(T, list(args))]})
    # one sentence per production
    add(dur("2s"), k_from, k_to)
    add(dur("2.5s"), k_to)
    add(dur("700ms"), k_from, k_to)
    add(dur("1_500ms"), k_to)
    add(dur("for 3s"), k_to)
    add(dur("for 250ms"), k_from)
    add(dur("1s"), delay("after 2s"), k_to)
    add(dur("1s"), delay("after 500ms"), k_to)
    add(dur("1s"), delay("after 0.25s"), k_to)
    add(dur("1s"), rep("3x"), k_to)
    add(dur("1s"), rep("1x"), k_to)
    add(dur("1s"), rep("4294967295x"), k_to)
    add(dur("1s"), rep("infinite"), k_to)
    add(dur("1s"), REVERSE, k_to)
    add(dur("1s"), easing("Easing::OutQuad"), k_to)
    add(dur("1s"), easing("Easing::InOutBack"), k_from, k_to)
    add(dur("1s"), k_from, k_50, k_to)
    add(dur("1s"), k_25f, k_to)
    add(dur("1s"), k_40)
    add(k_to)                                   # no duration at all: defaults
    add(k_from, k_to)
    # pairs of adjacent productions / orders
    add(k_from, k_to, dur("2s"))
    add(REVERSE, rep("infinite"), dur("2s"), k_from, k_to)
    add(rep("infinite"), REVERSE, easing("Easing::In"), delay("after 1s"), dur("for 2s"), k_from, k_to)
    add(easing("Easing::Out"), dur("500ms"), REVERSE, rep("2x"), k_from, k_50, k_to)
    add(delay("after 100ms"), dur("900ms"), rep("5x"), k_to)
    add(dur("1s"), k_from, REVERSE, k_to)
    add(dur("1s"), k_from, rep("2x"), k_50, easing("Easing::InSine"), k_to, delay("after 3s"))
    add(dur("10s"), rep("infinite"), k_from, k_25f, k_50, k_to)
    add(dur("1s"), dur("2s"), k_to)             # a later argument of the same kind wins
    # keyframes sharing a position (a step) are all kept, in source order; keyframes may be written out of order
    add(dur("4s"), k_from, kf(T, "50%", [("x", "3.5")]), kf(T, "50%", [("x", "7.5"), ("n", "40")]), k_to)
    add(dur("1s"), k_from, kf(T, "0%", [("x", "2.5"), ("y", "0.5")]), k_to)
    add(dur("1s"), k_from, kf(T, "100%", [("x", "8.5")]), k_to)
    add(dur("1s"), k_to, k_50, k_from)
    add(dur("1s"), k_50, k_25f, k_to)
    # field values are arbitrary caller expressions: variables whose names the expansion might use for its own bindings must
    # keep meaning the caller's variables (macro hygiene)
    HYG = "time: f32, duration: f32, delay: f32, position: f32, value: f32, t: f32, x: f32, keyframe: f32, timeline: f32, " \
          "builder: f32, name: u8, count: u8, values: f32, normalized_time: f32, default_values: f32"
    S.append({"kind": "single", "params": HYG, "items": [sentence(T, [
        dur("2s"), kf(T, "from", [("x", "time"), ("y", "duration")]), kf(T, "50%", [("x", "position"), ("n", "count")]),
        kf(T, "to", [("x", "value + t"), ("y", "x"), ("n", "name")])])]})
    S.append({"kind": "merged", "params": HYG, "items": [
        sentence(T, [dur("1s"), kf(T, "from", [("x", "keyframe"), ("y", "timeline")]), kf(T, "to", [("x", "builder"), ("y", "delay")])]),
        sentence(T, [dur("3s"), delay("after 1s"), kf(T, "25%", [("x", "values")]), kf(T, "to", [("x", "normalized_time"), ("y", "default_values")])])]})
    # positions below 1 % and above 99 %, counts that f32 cannot hold
    add(dur("1s"), kf(T, "0.5%", [("x", "3.5")]), kf(T, "0.25%", [("y", "1.5")]), kf(T, "99.75%", [("x", "4.5")]), k_to)
    add(dur("1s"), rep("16_777_217x"), k_to)
    add(dur("1s"), rep("4294967294x"), k_from, k_to)
    # every repeatable element once more: the same field twice in one keyframe (the later setter wins), an empty keyframe,
    # each kind of argument given twice
    add(dur("1s"), k_from, kf(T, "to", [("x", "1.5"), ("y", "2.5"), ("x", "8.5")]))
    add(dur("1s"), k_from, kf(T, "50%", []), k_to)
    add(dur("1s"), delay("after 1s"), delay("after 250ms"), rep("2x"), rep("infinite"), k_to)
    add(dur("1s"), easing("Easing::In"), REVERSE, easing("Easing::OutQuad"), REVERSE, k_from, k_to)
    # merged lists
    S.append({"kind": "merged", "items": [sentence(T, [dur("1s"), k_from, k_to]),
                                          sentence(T, [dur("2s"), delay("after 1s"), k_50])]})
    S.append({"kind": "merged", "items": [sentence(T, [dur("1s"), rep("infinite"), REVERSE, k_to]),
                                          sentence(T, [dur("300ms"), easing("Easing::OutCubic"), k_from, k_to]),
                                          sentence(T, [dur("4s"), k_40])]})
    S.append({"kind": "merged1", "items": [sentence(T, [dur("1s"), k_to])]})     # one-element list
    # members / sentences without keyframes are well-formed: they write nothing but count for delay / duration / repeat
    add(dur("3s"), rep("2x"))
    S.append({"kind": "merged", "items": [sentence(T, [dur("for 3s"), rep("2x")]),
                                          sentence(T, [dur("500ms"), delay("after 250ms"), k_from, k_to])]})
    S.append({"kind": "merged", "items": [sentence(T, [dur("1s"), k_to]),
                                          sentence(T, [delay("after 4s"), dur("2s"), rep("infinite")]),
                                          sentence(T, [dur("2s"), k_50])]})
    S.append({"kind": "merged", "items": [sentence(T, [dur("1s"), k_from, k_to]), sentence(T, [dur("9s")])]})
    if tier == "thorough":
        rnd = random.Random(seed * 104729 + 5)
        pool_t = [dur("2s"), dur("1.25s"), dur("350ms"), dur("for 4s"), dur("for 1_250ms"), dur("12_000ms")]
        pool_d = [delay("after 1s"), delay("after 150ms"), delay("after 2.5s")]
        pool_r = [rep("2x"), rep("10x"), rep("infinite"), rep("1_000x")]
        pool_e = [easing("Easing::InQuad"), easing("Easing::OutExpo"), easing("Easing::Linear"), easing("Easing::InOutCirc")]
        pool_k = [k_from, k_to, k_50, k_25f, k_40, kf(T, "75%", [("x", "7.5")]), kf(T, "10%", [("n", "10"), ("y", "0.5")]),
                  kf(T, "99.5%", [("x", "1.5")]), kf(T, "0%", [("x", "2.5")]), kf(T, "100%", [("y", "8.5")])]
        for i in range(260):
            args = []
            if rnd.random() < 0.9:
                args.append(rnd.choice(pool_t))
            if rnd.random() < 0.5:
                args.append(rnd.choice(pool_d))
            if rnd.random() < 0.5:
                args.append(rnd.choice(pool_r))
            if rnd.random() < 0.4:
                args.append(REVERSE)
            if rnd.random() < 0.5:
                args.append(rnd.choice(pool_e))
            ks = rnd.sample(pool_k, rnd.choice([0, 1, 1, 2, 2, 3, 3, 4]))
            if ks and rnd.random() < 0.2:
                ks.append(kf(T, rnd.choice(ks).macro.split(" ")[0], [("y", "6.5")]))     # a second keyframe at one position
            args += ks
            rnd.shuffle(args)
            S.append({"kind": "single", "items": [sentence(T, args)]})
        for i in range(20):
            items = []
            for j in range(rnd.randint(2, 4)):
                args = [rnd.choice(pool_t)] + rnd.sample(pool_k, rnd.randint(0 if j else 1, 3))
                if rnd.random() < 0.5:
                    args.append(rnd.choice(pool_r))
                if rnd.random() < 0.3:
                    args.append(rnd.choice(pool_d))
                rnd.shuffle(args)
                items.append(sentence(T, args))
            S.append({"kind": "merged", "items": items})
    return S


TL_PRELUDE = """// generated by witness/gen.py - do not edit
#![allow(dead_code, unused_imports, unused_variables)]
use mina::prelude::*;

#[derive(Animate, Clone, Debug, Default, PartialEq)]
pub struct Tl {
    pub x: f32,
    pub y: f32,
    pub n: u8,
}
"""


def timeline_source(corpus):
    out = [TL_PRELUDE]
    meta = []
    for i, s in enumerate(corpus):
        name = "w%d" % i
        items = s["items"]
        if s["kind"] == "single":
            ty = "TlTimeline"
            mac = "timeline!(Tl %s)" % items[0]["macro"]
            ref = "%s.build()" % items[0]["ref"]
        else:
            ty = "MergedTimeline<TlTimeline>" if s["kind"] == "merged" else "TlTimeline"
            mac = "timeline!(Tl [%s])" % ", ".join(it["macro"] for it in items)
            if s["kind"] == "merged":
                ref = "MergedTimeline::of([%s])" % ", ".join("%s.build()" % it["ref"] for it in items)
            else:
                ref = "%s.build()" % items[0]["ref"]
        out.append("pub fn %s_macro(%s) -> %s {\n    %s\n}" % (name, s.get("params", ""), ty, mac))
        out.append("pub fn %s_ref(%s) -> %s {\n    %s\n}" % (name, s.get("params", ""), ty, ref))
        meta.append({"name": name, "kind": s["kind"], "macro": mac, "ref": ref,
                     "prods": sorted({p for it in items for p in it["prods"]} | ({"merge-list"} if s["kind"] != "single" else set()))})
    return "\n\n".join(out) + "\n", meta


# ---------------------------------------------------------------------------------------------------
# animator corpus
AN_PRELUDE = """// generated by witness/gen.py - do not edit
#![allow(dead_code, unused_imports, unused_variables)]
use mina::prelude::*;

#[derive(Animate, Clone, Debug, Default, PartialEq)]
pub struct Tl {
    pub x: f32,
    pub y: f32,
    pub n: u8,
}

#[derive(Clone, Debug, Default, Eq, PartialEq, State)]
pub enum St {
    #[default]
    A,
    B,
    C,
    D,
}

pub type Anim = EnumStateAnimator<St, TlTimeline>;

pub fn some_values() -> Tl {
    Tl { x: 11.5, y: 12.5, n: 13 }
}
"""


def animator_corpus(tier, seed):
    T = "Tl"
    k_to = kf(T, "to", [("x", "9.5")])
    k_to2 = kf(T, "to", [("y", "3.5"), ("n", "30")])
    k_from = kf(T, "from", [("x", "0.5")])
    k_def = kf(T, "to", None, default=True)
    k_def50 = kf(T, "50%", None, default=True)

    def arm(states, items):
        return {"states": states, "items": items}

    def tl(*args):
        return sentence(T, list(args))
    C = []
    # defaults: none | state only | inline | expression
    C.append({"defaults": None, "arms": [arm(["St::A"], [tl(dur("1s"), k_to)])]})
    C.append({"defaults": {"state": "St::B", "values": None}, "arms": [arm(["St::B"], [tl(dur("1s"), k_to)])]})
    C.append({"defaults": {"state": "St::A", "values": ("inline", [("x", "1.5"), ("n", "4")])},
              "arms": [arm(["St::A"], [tl(dur("250ms"), k_def)]), arm(["St::B"], [tl(dur("500ms"), k_to)]),
                       arm(["St::C"], [tl(dur("100ms"), k_to2)])]})
    C.append({"defaults": {"state": "St::C", "values": ("expr", "some_values()")},
              "arms": [arm(["St::C"], [tl(dur("2s"), easing("Easing::OutQuad"), k_def)]),
                       arm(["St::A"], [tl(dur("1s"), easing("Easing::Linear"), k_to2)])]})
    # A | B arms
    C.append({"defaults": {"state": "St::A", "values": ("inline", [("y", "2.5")])},
              "arms": [arm(["St::A", "St::B"], [tl(dur("1s"), k_to)]), arm(["St::C"], [tl(dur("2s"), rep("infinite"), REVERSE, k_from, k_to)])]})
    C.append({"defaults": None, "arms": [arm(["St::B", "St::C", "St::D"], [tl(dur("3s"), delay("after 1s"), k_to2)])]})
    # two (and three) multi-state arms with different timelines in one block
    C.append({"defaults": {"state": "St::A", "values": ("inline", [("x", "2.5")])},
              "arms": [arm(["St::A", "St::B"], [tl(dur("2s"), k_def)]),
                       arm(["St::C", "St::D"], [tl(dur("4s"), easing("Easing::OutQuad"), k_to2)])]})
    C.append({"defaults": None,
              "arms": [arm(["St::A", "St::D"], [tl(dur("1s"), k_to), tl(dur("3s"), k_to2)]),
                       arm(["St::B", "St::C"], [tl(dur("500ms"), rep("2x"), k_from, k_to)])]})
    # merged arms
    C.append({"defaults": {"state": "St::A", "values": ("inline", [("x", "5.5")])},
              "arms": [arm(["St::A"], [tl(dur("1s"), k_to), tl(dur("2s"), k_to2)]),
                       arm(["St::B"], [tl(dur("1s"), k_def50, k_to)])]})
    C.append({"defaults": {"state": "St::D", "values": ("expr", "Tl { x: 1.5, ..Default::default() }")},
              "arms": [arm(["St::D", "St::A"], [tl(dur("1s"), k_def), tl(dur("500ms"), rep("2x"), k_to2)])]})
    # unmentioned states / no arms at all / trailing comma variants are grammar-level only
    C.append({"defaults": {"state": "St::A", "values": ("inline", [("n", "9")])}, "arms": []})
    C.append({"defaults": None, "arms": [arm(["St::A"], [tl(k_to)]), arm(["St::A"], [tl(dur("2s"), k_to2)])]})  # same state twice: last wins
    C.append({"defaults": {"state": "St::B", "values": ("inline", [("x", "2.5")])},
              "arms": [arm(["St::A"], [tl(dur("1s"), kf(T, "0.5%", [("x", "0.5")]), k_to)]),
                       arm(["St::B", "St::C"], [tl(dur("2s"), rep("16_777_217x"), k_def50, kf(T, "0.9%", [("y", "1.5")])),
                                                tl(dur("750ms"), delay("after 0.5s"), k_to2)])]})
    # a shared arm refined by a later arm for one of its states (the later one wins for that state only)
    C.append({"defaults": {"state": "St::A", "values": None},
              "arms": [arm(["St::A", "St::B", "St::C"], [tl(dur("4s"), k_def)]), arm(["St::C"], [tl(dur("2s"), k_to2)])]})
    # merged arm with a member that has no keyframes
    C.append({"defaults": None,
              "arms": [arm(["St::B"], [tl(dur("for 3s"), rep("2x")), tl(dur("1s"), delay("after 500ms"), k_to)])]})
    # arms whose timeline has no keyframes at all (a hold / timer state): the state still has a timeline
    C.append({"defaults": {"state": "St::A", "values": ("inline", [("x", "1.5")])},
              "arms": [arm(["St::A"], [tl(dur("1s"), k_to)]), arm(["St::B"], [tl(dur("2s"))]),
                       arm(["St::C", "St::D"], [tl(dur("for 3s"), rep("2x")), tl(dur("1s"), delay("after 500ms"))])]})
    # caller variables in field values and inline defaults keep their meaning (macro hygiene)
    C.append({"params": "time: f32, duration: f32, position: f32, value: f32, state: f32, timeline: f32, animator: f32, "
                        "builder: f32, values: f32, count: u8",
              "defaults": {"state": "St::A", "values": ("inline", [("x", "value"), ("n", "count")])},
              "arms": [arm(["St::A"], [tl(dur("1s"), kf(T, "from", [("x", "time")]), kf(T, "to", [("x", "duration"), ("y", "state")]))]),
                       arm(["St::B", "St::C"], [tl(dur("2s"), kf(T, "to", [("x", "timeline"), ("y", "animator")])),
                                                tl(dur("500ms"), kf(T, "50%", [("y", "builder")]), kf(T, "to", [("y", "values + position")]))])]})
    # keyframes sharing a position inside an arm keep their order (a step)
    C.append({"defaults": {"state": "St::A", "values": ("inline", [("x", "1.5")])},
              "arms": [arm(["St::A"], [tl(dur("2s"), k_from, kf(T, "50%", [("x", "3.5")]), kf(T, "50%", [("x", "7.5"), ("n", "40")]), k_to)]),
                       arm(["St::B"], [tl(dur("1s"), k_to, kf(T, "100%", [("x", "2.5")]))])]})
    # a state listed twice in one arm; a single-state arm overridden by a later shared arm
    C.append({"defaults": None,
              "arms": [arm(["St::A", "St::A", "St::B"], [tl(dur("1s"), k_to)]), arm(["St::C"], [tl(dur("2s"), k_to2)]),
                       arm(["St::C", "St::D"], [tl(dur("3s"), k_from, k_to)])]})
    if tier == "thorough":
        rnd = random.Random(seed * 1299709 + 3)
        states = ["St::A", "St::B", "St::C", "St::D"]
        for i in range(60):
            dv = rnd.choice([None, "state", "inline", "expr"])
            d = None
            if dv == "state":
                d = {"state": rnd.choice(states), "values": None}
            elif dv == "inline":
                fs = rnd.sample([("x", "1.5"), ("y", "2.5"), ("n", "3")], rnd.randint(1, 3))
                d = {"state": rnd.choice(states), "values": ("inline", fs)}
            elif dv == "expr":
                d = {"state": rnd.choice(states), "values": ("expr", rnd.choice(["some_values()", "Tl::default()"]))}
            arms = []
            rest = list(states)
            rnd.shuffle(rest)
            while rest and rnd.random() < 0.8:
                k = rnd.randint(1, min(2, len(rest)))
                ss, rest = rest[:k], rest[k:]
                items = []
                for j in range(rnd.choice([1, 1, 2, 3])):
                    args = [rnd.choice([dur("1s"), dur("250ms"), dur("for 2s")])]
                    if rnd.random() < 0.3:
                        args.append(rnd.choice([rep("2x"), rep("infinite")]))
                    if rnd.random() < 0.3:
                        args.append(easing("Easing::OutQuad"))
                    if rnd.random() < 0.85:
                        args.append(rnd.choice([k_to, k_to2, k_def]))
                        if rnd.random() < 0.3:
                            args.append(k_from)
                    rnd.shuffle(args)
                    items.append(tl(*args))
                arms.append(arm(ss, items))
            C.append({"defaults": d, "arms": arms})
    return C


def animator_source(corpus):
    out = [AN_PRELUDE]
    meta = []
    for i, c in enumerate(corpus):
        name = "a%d" % i
        d = c["defaults"]
        # macro text
        parts = []
        prods = set()
        if d is not None:
            if d["values"] is None:
                parts.append("default(%s)" % d["state"])
                prods.add("default:state")
                dv_ref = "Tl::default()"
            elif d["values"][0] == "inline":
                parts.append("default(%s, { %s })" % (d["state"], ", ".join("%s: %s" % f for f in d["values"][1])))
                prods.add("default:inline")
                dv_ref = "Tl { %s, ..Default::default() }" % ", ".join("%s: %s" % f for f in d["values"][1])
            else:
                parts.append("default(%s, %s)" % (d["state"], d["values"][1]))
                prods.add("default:expr")
                dv_ref = d["values"][1]
        else:
            prods.add("default:none")
            dv_ref = "Tl::default()"
        ref = ["let default_values: Tl = %s;" % dv_ref, "StateAnimatorBuilder::new()"]
        if d is not None:
            ref.append("    .from_state(%s)" % d["state"])
        ref.append("    .from_values(default_values.clone())")
        for a in c["arms"]:
            items = a["items"]
            if len(a["states"]) > 1:
                prods.add("arm:A|B")
            if len(items) == 1:
                mac_t = items[0]["macro"]
                ref_t = items[0]["ref"]
                prods.add("arm:single")
            else:
                mac_t = "[%s]" % ", ".join(it["macro"] for it in items)
                ref_t = "MergedTimeline::of([%s])" % ", ".join("%s.build()" % it["ref"] for it in items)
                prods.add("arm:merged")
            for it in items:
                prods |= set(it["prods"])
            parts.append("%s => %s" % (" | ".join(a["states"]), mac_t))
            for s in a["states"]:
                ref.append("    .on(%s, %s)" % (s, ref_t))
        ref.append("    .build()")
        mac = "animator!(Tl { %s%s })" % (", ".join(parts), "," if (d is not None and not c["arms"]) else "")
        out.append("pub fn %s_macro(%s) -> Anim {\n    %s\n}" % (name, c.get("params", ""), mac))
        out.append("pub fn %s_ref(%s) -> Anim {\n    %s\n}" % (name, c.get("params", ""), "\n    ".join(ref)))
        meta.append({"name": name, "macro": mac, "ref": " ".join(x.strip() for x in ref), "prods": sorted(prods)})
    return "\n\n".join(out) + "\n", meta


# ---------------------------------------------------------------------------------------------------
# E4: ill-formed sentences and their compiling twins
NEG = [
    ("unknown_suffix", "timeline!(Tl 2m to { x: 1.0 })", "timeline!(Tl 2s to { x: 1.0 })"),
    ("unknown_suffix_delay", "timeline!(Tl 1s after 5h to { x: 1.0 })", "timeline!(Tl 1s after 5s to { x: 1.0 })"),
    ("missing_percent", "timeline!(Tl 1s 50 { x: 1.0 } to { x: 2.0 })", "timeline!(Tl 1s 50% { x: 1.0 } to { x: 2.0 })"),
    ("non_integer_repeat", "timeline!(Tl 1s 2.5x to { x: 1.0 })", "timeline!(Tl 1s 2x to { x: 1.0 })"),
    ("keyframe_without_braces", "timeline!(Tl 1s to x: 1.0)", "timeline!(Tl 1s to { x: 1.0 })"),
    ("keyframe_without_body", "timeline!(Tl 1s from { x: 1.0 } to)", "timeline!(Tl 1s from { x: 1.0 } to { x: 2.0 })"),
    ("unknown_keyword", "timeline!(Tl 1s backwards to { x: 1.0 })", "timeline!(Tl 1s reverse to { x: 1.0 })"),
    ("string_duration", "timeline!(Tl \"2s\" to { x: 1.0 })", "timeline!(Tl 2s to { x: 1.0 })"),
    ("delay_without_unit", "timeline!(Tl 1s after 2 to { x: 1.0 })", "timeline!(Tl 1s after 2s to { x: 1.0 })"),
    ("unknown_field", "timeline!(Tl 1s to { q: 1.0 })", "timeline!(Tl 1s to { x: 1.0 })"),
    ("wrong_field_type", "timeline!(Tl 1s to { n: 1.5 })", "timeline!(Tl 1s to { n: 1 })"),
    ("repeat_too_large", "timeline!(Tl 1s 4294967296x to { x: 1.0 })", "timeline!(Tl 1s 4294967295x to { x: 1.0 })"),
]
NEG_PRELUDE = TL_PRELUDE


def neg_sources():
    bad = [NEG_PRELUDE]
    twin = [NEG_PRELUDE]
    for name, b, t in NEG:
        bad.append("pub fn %s() {\n    let _t = %s;\n}" % (name, b))
        twin.append("pub fn %s() {\n    let _t = %s;\n}" % (name, t))
    return "\n\n".join(bad) + "\n", "\n\n".join(twin) + "\n"


# ---------------------------------------------------------------------------------------------------
def cargo_toml(name, repo, extra=""):
    return """[package]
name = "%s"
version = "0.0.0"
edition = "2021"
publish = false

[lib]
path = "src/lib.rs"

[dependencies]
mina = { path = "%s", features = ["glam"] }
enum-map = "2.5.0"
glam = "0.24.2"
%s""" % (name, repo, extra)


def write(path, text):
    os.makedirs(os.path.dirname(path), exist_ok=True)
    if os.path.exists(path) and open(path).read() == text:
        return
    open(path, "w").write(text)


def main():
    out, tier, seed, repo = sys.argv[1], sys.argv[2], int(sys.argv[3]), sys.argv[4]
    here = os.path.dirname(os.path.abspath(__file__))
    shapes = derive_shapes(tier, seed)
    tcorp = timeline_corpus(tier, seed)
    acorp = animator_corpus(tier, seed)
    tsrc, tmeta = timeline_source(tcorp)
    asrc, ameta = animator_source(acorp)
    bad, twin = neg_sources()
    write(os.path.join(out, "Cargo.toml"),
          "[workspace]\nmembers = [\"derive\", \"timeline\", \"animator\", \"controls\"]\nresolver = \"2\"\n")
    write(os.path.join(out, "derive", "Cargo.toml"), cargo_toml("witness-derive", repo))
    write(os.path.join(out, "derive", "src", "lib.rs"), derive_source(shapes))
    write(os.path.join(out, "timeline", "Cargo.toml"), cargo_toml("witness-timeline", repo))
    write(os.path.join(out, "timeline", "src", "lib.rs"), tsrc)
    write(os.path.join(out, "animator", "Cargo.toml"), cargo_toml("witness-animator", repo))
    write(os.path.join(out, "animator", "src", "lib.rs"), asrc)
    write(os.path.join(out, "controls", "Cargo.toml"),
          cargo_toml("witness-controls", repo, 'mina_core = { path = "%s/core" }\n' % repo))
    ctl = open(os.path.join(here, "controls.rs")).read() if os.path.exists(os.path.join(here, "controls.rs")) else "// no controls yet\n"
    write(os.path.join(out, "controls", "src", "lib.rs"), ctl)
    for nm, src in (("neg_bad", bad), ("neg_twin", twin)):
        write(os.path.join(out, "..", os.path.basename(out) + "-" + nm, "Cargo.toml"),
              cargo_toml("witness-" + nm.replace("_", "-"), repo, "\n[workspace]\n"))
        write(os.path.join(out, "..", os.path.basename(out) + "-" + nm, "src", "lib.rs"), src)
    meta = {"tier": tier, "seed": seed, "derive": shapes, "timeline": tmeta, "animator": ameta,
            "neg": [{"name": n, "bad": b, "twin": t} for n, b, t in NEG]}
    write(os.path.join(out, "meta.json"), json.dumps(meta, indent=1))
    print("witness: %d shapes, %d timeline pairs, %d animator pairs, %d negatives" % (len(shapes), len(tmeta), len(ameta), len(NEG)))


if __name__ == "__main__":
    main()
