// Positive controls (DESIGN.md 3.2): small deliberately-VIOLATING functions, one per rule whose expected number of
// findings on mina is zero.  Every check runs its rule on its control and fails with CHECKER-BROKEN when the rule
// stays silent.  None of this code is ever executed.
#![allow(dead_code, unused_imports, unused_variables, clippy::all)]

pub mod anim {
    //! A copy of the state animator with three seeded defects:
    //!  * set_state keeps a stale pause record when another animated state is entered (C04/R5, C05/R3)
    //!  * advance clamps the step (C06/R1)
    //!  * is_ended uses `>` instead of `>=` (C07/R1)
    use mina_core::animator::{MapLike, StateAnimator};
    use mina_core::timeline::{MergedTimeline, Timeline};
    use std::marker::PhantomData;
    use std::time::Duration;

    pub struct CtlAnimator<State, Timeline, TimelineMap>
    where
        State: Clone + PartialEq,
        Timeline: mina_core::timeline::Timeline,
        Timeline::Target: Clone,
        TimelineMap: MapLike<State, MergedTimeline<Timeline>>,
    {
        timelines: TimelineMap,
        current_state: State,
        current_values: Timeline::Target,
        paused_animation: Option<(State, Duration)>,
        state_duration: Duration,
        _timeline_phantom: PhantomData<Timeline>,
    }

    impl<State, Timeline, TimelineMap> CtlAnimator<State, Timeline, TimelineMap>
    where
        State: Clone + PartialEq,
        Timeline: mina_core::timeline::Timeline,
        Timeline::Target: Clone,
        TimelineMap: MapLike<State, MergedTimeline<Timeline>>,
    {
        fn blend_next_timeline(&mut self, state: &State) {
            if let Some(next_timeline) = self.timelines.get_mut(state) {
                next_timeline.start_with(&self.current_values);
            }
        }

        fn update_current_values(&mut self) {
            if let Some(timeline) = self.timelines.get(&self.current_state) {
                timeline.update(&mut self.current_values, self.state_duration.as_secs_f32());
            }
        }
    }

    impl<State, Timeline, TimelineMap> StateAnimator for CtlAnimator<State, Timeline, TimelineMap>
    where
        State: Clone + PartialEq,
        Timeline: mina_core::timeline::Timeline,
        Timeline::Target: Clone,
        TimelineMap: MapLike<State, MergedTimeline<Timeline>>,
    {
        type State = State;
        type Values = Timeline::Target;

        fn advance(&mut self, elapsed_seconds: f32) {
            // control: the step is clamped - frame-rate dependent
            self.state_duration += Duration::from_secs_f32(elapsed_seconds.min(0.1));
            self.update_current_values();
        }

        fn current_state(&self) -> &Self::State {
            &self.current_state
        }

        fn current_values(&self) -> &Self::Values {
            &self.current_values
        }

        fn is_ended(&self) -> bool {
            let Some(current_timeline) = self.timelines.get(&self.current_state) else {
                return true;
            };
            // control: strict comparison
            self.state_duration.as_secs_f32() > current_timeline.duration()
        }

        fn set_state(&mut self, state: &State) {
            if state == &self.current_state {
                return;
            }
            match self.paused_animation.as_ref() {
                Some((paused_state, paused_position)) if state == paused_state => {
                    self.state_duration = *paused_position;
                }
                _ => {
                    let was_animating = self.timelines.get(&self.current_state).is_some();
                    let will_animate = self.timelines.get(state).is_some();
                    if was_animating && !will_animate {
                        self.paused_animation = Some((self.current_state.clone(), self.state_duration));
                    }
                    // control: the record is never discarded
                    self.blend_next_timeline(state);
                    self.state_duration = Duration::ZERO;
                }
            }
            self.current_state = state.clone();
            self.update_current_values();
        }
    }
}

pub mod order {
    //! C11/R1 control: the search table is derived BEFORE the keyframes are sorted.
    pub struct CtlKeyframe {
        pub normalized_time: f32,
        pub payload: u32,
    }

    pub struct CtlArgs {
        pub boundary_times: Vec<f32>,
        pub keyframes: Vec<CtlKeyframe>,
    }

    pub struct CtlConfig {
        pub keyframes: Vec<CtlKeyframe>,
    }

    pub fn ctl_from(value: CtlConfig) -> CtlArgs {
        let mut args = CtlArgs {
            boundary_times: value.keyframes.iter().map(|k| k.normalized_time).collect(),
            keyframes: value.keyframes,
        };
        args.keyframes.sort_by(|a, b| a.normalized_time.total_cmp(&b.normalized_time));
        args
    }
}

pub mod merged {
    //! C12 controls: reversed traversal in update, truncated traversal in start_with, delay folded with max.
    use mina_core::timeline::{Repeat, Timeline};
    use std::cmp::Ordering;

    pub struct CtlMerged<T: Timeline> {
        timelines: Vec<T>,
    }

    impl<T: Timeline> Timeline for CtlMerged<T> {
        type Target = T::Target;

        fn cycle_duration(&self) -> Option<f32> {
            self.timelines.iter().map(|t| t.cycle_duration()).reduce(|d1, d2| if d1 == d2 { d1 } else { None }).flatten()
        }

        fn delay(&self) -> f32 {
            // control: maximum instead of minimum
            self.timelines.iter().map(|t| t.delay()).max_by(|a, b| a.partial_cmp(b).unwrap_or(Ordering::Less)).unwrap_or(0.)
        }

        fn duration(&self) -> f32 {
            // control: comparator reversed (yields the minimum)
            self.timelines.iter().map(|t| t.duration()).max_by(|a, b| b.partial_cmp(a).unwrap_or(Ordering::Less)).unwrap_or(0.)
        }

        fn repeat(&self) -> Repeat {
            self.timelines.iter().map(|t| t.repeat()).max().unwrap_or(Repeat::None)
        }

        fn start_with(&mut self, values: &Self::Target) {
            // control: only the first component is reached
            for timeline in self.timelines.iter_mut().take(1) {
                timeline.start_with(values);
            }
        }

        fn update(&self, values: &mut Self::Target, time: f32) {
            // control: reversed order
            for timeline in self.timelines.iter().rev() {
                timeline.update(values, time);
            }
        }
    }
}

pub mod lerp {
    //! C14 controls: a vector lerp with mismatched components and a non-exact scalar form.
    use mina_core::interpolation::Lerp;

    #[derive(Clone, Copy)]
    pub struct CtlVec3 {
        pub x: f32,
        pub y: f32,
        pub z: f32,
    }

    impl CtlVec3 {
        pub fn new(x: f32, y: f32, z: f32) -> Self {
            Self { x, y, z }
        }
    }

    impl Lerp for CtlVec3 {
        fn lerp(&self, b: &Self, t: f32) -> Self {
            // control: z interpolates towards b.y
            Self::new(self.x.lerp(&b.x, t), self.y.lerp(&b.y, t), self.z.lerp(&b.y, t))
        }
    }

    #[derive(Clone, Copy)]
    pub struct CtlScalar(pub f32);

    pub fn ctl_lerp_inexact(a: &f32, b: &f32, x: f32) -> f32 {
        // control: a + x (b - a) is not exact at x = 1
        *a + x * (*b - *a)
    }
}

pub mod panics {
    //! C20 controls: an unguarded checked addition, an unguarded float division, an unguarded conversion.
    use std::time::Duration;

    pub fn ctl_overflow(n: u32) -> f32 {
        (n + 1) as f32
    }

    pub fn ctl_division(a: f32, b: f32) -> f32 {
        a / b
    }

    pub fn ctl_conversion(x: f32) -> Duration {
        Duration::from_secs_f32(x)
    }

    pub fn ctl_index_sub(v: &[u8], i: usize) -> u8 {
        v[i - 1]
    }
}

pub mod timescale {
    //! C02 / C03 / C10 controls: a copy of the time scale with
    //!  * the fold of a reversing cycle at 0.4 instead of one half (C03/R2)
    //!  * no hold at the end of a pass on exact cycle multiples (C02/R2)
    //!  * `is_repeating` computed with `>` (C10/R3)
    //!  * total duration that ignores the delay (C03/R4)
    use mina_core::timeline::Repeat;

    pub struct CtlTimeScale {
        delay: f32,
        duration: f32,
        repeat: Repeat,
        reverse: bool,
    }

    pub enum CtlPosition {
        NotStarted,
        Active(f32, CtlLoopState),
        Ended(f32),
    }

    pub struct CtlLoopState {
        pub is_repeating: bool,
        pub is_reversing: bool,
    }

    impl CtlTimeScale {
        pub fn get_duration(&self) -> f32 {
            if self.repeat == Repeat::Infinite {
                f32::INFINITY
            } else {
                // control: the delay is not part of the reported duration
                self.duration * (repeat_ordinal(&self.repeat) as u64 + 1) as f32
            }
        }

        pub fn get_position(&self, time: f32) -> CtlPosition {
            let time = time - self.delay;
            if time < 0.0 {
                return CtlPosition::NotStarted;
            }
            let (cycle_time, is_repeating) = match self.repeat {
                Repeat::None if time > self.duration => return self.position_ended(),
                Repeat::None => (time, false),
                Repeat::Times(times) if time > self.duration * (times as u64 + 1) as f32 => {
                    return self.position_ended();
                }
                Repeat::Times(_) | Repeat::Infinite => {
                    // control: no hold rule, and `>` instead of `>=`
                    let (quot, rem) = (time / self.duration, time % self.duration);
                    (rem, quot > 1.0)
                }
            };
            let cycle_ratio = cycle_time / self.duration;
            let (normalized_time, is_reversing) = match self.reverse {
                // control: fold at 0.4
                true if cycle_ratio > 0.4 => ((1.0 - cycle_ratio) * 2.0, true),
                true => (cycle_ratio * 2.0, false),
                false => (cycle_ratio, false),
            };
            CtlPosition::Active(normalized_time, CtlLoopState { is_repeating, is_reversing })
        }

        fn position_ended(&self) -> CtlPosition {
            // control: a reversing timeline ends at 1.0 as well
            CtlPosition::Ended(1.0)
        }
    }

    fn repeat_ordinal(r: &Repeat) -> u32 {
        match r {
            Repeat::None => 0,
            Repeat::Times(value) => *value,
            Repeat::Infinite => u32::MAX,
        }
    }
}

pub mod tv {
    //! C15 / C16 controls: a macro use and a builder chain that do NOT agree.
    use mina::prelude::*;

    #[derive(Animate, Clone, Debug, Default, PartialEq)]
    pub struct Tv {
        pub x: f32,
    }

    #[derive(Clone, Debug, Default, Eq, PartialEq, State)]
    pub enum TvState {
        #[default]
        A,
        B,
    }

    pub fn ctl_timeline_macro() -> TvTimeline {
        timeline!(Tv 2s after 1s to { x: 1.0 })
    }

    pub fn ctl_timeline_ref() -> TvTimeline {
        // control: delay and duration swapped
        Tv::timeline().duration_seconds(1.0).delay_seconds(2.0).keyframe(Tv::keyframe(1.0).x(1.0)).build()
    }

    pub fn ctl_animator_macro() -> EnumStateAnimator<TvState, TvTimeline> {
        animator!(Tv { default(TvState::A, { x: 1.0 }), TvState::A | TvState::B => 1s to { x: 2.0 } })
    }

    pub fn ctl_animator_ref() -> EnumStateAnimator<TvState, TvTimeline> {
        // control: state B missing
        let default_values: Tv = Tv { x: 1.0 };
        StateAnimatorBuilder::new()
            .from_state(TvState::A)
            .from_values(default_values.clone())
            .on(TvState::A, Tv::timeline().duration_seconds(1.0).keyframe(Tv::keyframe(1.0).x(2.0)))
            .build()
    }
}

pub mod gen {
    //! C08 / C09 / C17 controls: hand-written "generated" code with seeded defects:
    //!  * update writes a field that is not animated, and reads the target (C08/R1, C09/R2)
    //!  * start_with skips a field (C09/R4, C17/G6)
    use mina::prelude::*;
    use mina::{prepare_frame, SubTimeline, TimeScale};

    #[derive(Clone, Debug, Default, PartialEq)]
    pub struct Ctl {
        pub x: f32,
        pub y: f32,
        pub other: u8,
    }

    #[derive(Clone, Debug)]
    pub struct CtlTimeline {
        boundary_times: Vec<f32>,
        timescale: TimeScale,
        t_x: SubTimeline<f32>,
        t_y: SubTimeline<f32>,
    }

    impl Timeline for CtlTimeline {
        type Target = Ctl;

        fn cycle_duration(&self) -> Option<f32> {
            Some(self.timescale.get_cycle_duration())
        }

        fn delay(&self) -> f32 {
            self.timescale.get_delay()
        }

        fn duration(&self) -> f32 {
            self.timescale.get_duration()
        }

        fn repeat(&self) -> Repeat {
            self.timescale.get_repeat()
        }

        fn start_with(&mut self, values: &Self::Target) {
            self.t_x.override_start_value(values.x);
            // control: t_y is not started from the given values
        }

        fn update(&self, target: &mut Self::Target, time: f32) {
            let Some((normalized_time, frame_index, enable_start_override)) =
                prepare_frame(time, self.boundary_times.as_slice(), &self.timescale)
            else {
                return;
            };
            if let Some(x) = self.t_x.value_at(normalized_time, frame_index, enable_start_override) {
                target.x = x;
            }
            if let Some(y) = self.t_y.value_at(normalized_time, frame_index, enable_start_override) {
                // control: depends on the previous contents of the target
                target.y = y + target.x;
            }
            // control: a field that is not animated is overwritten
            target.other = 0;
        }
    }
}

pub mod split {
    //! C01 controls: a copy of the per-property splitter / lookup with seeded defects:
    //!  * the carried easing is updated by every keyframe that has one, also those that omit the property (R1)
    //!  * an index-map entry is added only for keyframes that define the property (R1)
    //!  * the lookup before a frame returns (frame idx, frame idx) instead of (idx-1, idx) (R2)
    //!  * the eased lerp takes the easing of the END frame (R3)
    //!  * the lookup uses the master index as frame index when the two tables have equal length (R2, S9-C01)
    //!  * value_at narrows the override flag by comparing the position with a constant (R2, S9-C10)
    use mina_core::easing::{Easing, EasingFunction};
    use mina_core::interpolation::Lerp;

    #[derive(Clone)]
    pub struct CtlKeyframe<Data: Clone> {
        pub data: Data,
        pub easing: Option<Easing>,
        pub normalized_time: f32,
    }

    #[derive(Clone)]
    pub struct CtlSub<Value: Clone> {
        frames: Vec<CtlSplit<Value>>,
        frame_index_map: Vec<usize>,
        start_frame_override: Option<CtlSplit<Value>>,
    }

    #[derive(Clone)]
    struct CtlSplit<Value: Clone> {
        easing: Easing,
        normalized_time: f32,
        value: Value,
    }

    impl<Value: Clone> CtlSplit<Value> {
        fn new(normalized_time: f32, value: Value, easing: Easing) -> Self {
            Self { normalized_time, value, easing }
        }

        fn with_time(&self, normalized_time: f32) -> Self {
            CtlSplit::new(normalized_time, self.value.clone(), self.easing.clone())
        }
    }

    impl<Value: Clone + Lerp> CtlSub<Value> {
        pub fn from_keyframes<'a, Data: 'a + Clone, ValueFn>(
            keyframes: impl IntoIterator<Item = &'a CtlKeyframe<Data>>,
            default_value: Value,
            get_value: ValueFn,
            default_easing: Easing,
        ) -> Self
        where
            ValueFn: Fn(&Data) -> Option<Value>,
        {
            let mut converted_frames = Vec::new();
            let mut frame_index_map = Vec::new();
            let mut current_easing = default_easing;
            let mut has_frame_data = false;
            for keyframe in keyframes.into_iter() {
                if converted_frames.is_empty() && keyframe.normalized_time > 0.0 {
                    converted_frames.push(CtlSplit::new(0.0, default_value.clone(), current_easing.clone()));
                }
                // control: easing carried over from keyframes that omit the property as well
                if let Some(easing) = &keyframe.easing {
                    current_easing = easing.clone();
                }
                if let Some(data) = get_value(&keyframe.data) {
                    has_frame_data = true;
                    converted_frames.push(CtlSplit::new(keyframe.normalized_time, data, current_easing.clone()));
                    // control: index-map entry only for keyframes with data
                    frame_index_map.push(converted_frames.len().max(1) - 1);
                }
            }
            if !has_frame_data {
                return Self { frame_index_map: vec![], frames: vec![], start_frame_override: None };
            }
            let trailing_frame = match converted_frames.last() {
                Some(frame) if frame.normalized_time < 1.0 => Some(frame.with_time(1.0)),
                _ => None,
            };
            if let Some(trailing_frame) = trailing_frame {
                converted_frames.push(trailing_frame);
            }
            Self { frames: converted_frames, frame_index_map, start_frame_override: None }
        }

        pub fn value_at(&self, normalized_time: f32, index_hint: usize, enable_start_override: bool) -> Option<Value> {
            if self.frame_index_map.is_empty() {
                return None;
            }
            let normalized_time = normalized_time.clamp(0.0, 1.0);
            // control: the override flag narrowed by a threshold on the position (seed S9-C10)
            let enable_start_override = enable_start_override && normalized_time < 0.5;
            let bounding_frames = self.get_bounding_frames(normalized_time, index_hint, enable_start_override)?;
            Some(ctl_interpolate(&bounding_frames, normalized_time))
        }

        fn get_bounding_frames(
            &self,
            normalized_time: f32,
            index_hint: usize,
            enable_start_override: bool,
        ) -> Option<[&CtlSplit<Value>; 2]> {
            // control: "dense" shortcut that uses the master index as frame index (seed S9-C01)
            let index_at = if self.frames.len() == self.frame_index_map.len() {
                index_hint
            } else {
                *self.frame_index_map.get(index_hint)?
            };
            let frame_at = self.get_frame(index_at, enable_start_override)?;
            if normalized_time < frame_at.normalized_time {
                if index_at > 0 {
                    // control: wrong neighbour
                    Some([self.get_frame(index_at, enable_start_override)?, frame_at])
                } else {
                    None
                }
            } else if index_at == self.frames.len() - 1 {
                Some([frame_at, frame_at])
            } else {
                self.frames.get(index_at + 1).map(|next_frame| [frame_at, next_frame])
            }
        }

        fn get_frame(&self, index: usize, enable_start_override: bool) -> Option<&CtlSplit<Value>> {
            if enable_start_override && index == 0 {
                if let Some(ref override_frame) = self.start_frame_override {
                    Some(override_frame)
                } else {
                    self.frames.get(0)
                }
            } else {
                self.frames.get(index)
            }
        }
    }

    fn ctl_interpolate<Value: Clone + Lerp>(bounding_frames: &[&CtlSplit<Value>; 2], time: f32) -> Value {
        let [start_frame, end_frame] = bounding_frames;
        let duration = end_frame.normalized_time - start_frame.normalized_time;
        if duration == 0.0 {
            return start_frame.value.clone();
        }
        // control: easing of the end frame
        let easing = &end_frame.easing;
        let x = (time - start_frame.normalized_time) / duration;
        let y = easing.calc(x);
        start_frame.value.lerp(&end_frame.value, y)
    }
}
