"""A tiny interval domain with a symbolic scale (DESIGN.md 3.2): values are closed intervals whose end
points are numbers, optionally scaled by the symbol D (the cycle duration, assumed finite and > 0).
Used for the range clause of C03 and to discharge division/remainder sites of C20.

All transfer functions used (subtraction of equal terms, division by D, remainder by D, multiplication by
a positive constant, 1 - r) are monotone and correctly rounded in IEEE arithmetic and the end points involved
(0, 1/2, 1, 2) are exactly representable, so the bounds hold in f32 and not only in the reals."""
import math
import pse
from pse import is_const

INF = math.inf


class Iv:
    __slots__ = ("lo", "hi", "scale", "lo_open", "hi_open")

    def __init__(self, lo, hi, scale=0, lo_open=False, hi_open=False):
        self.lo, self.hi, self.scale, self.lo_open, self.hi_open = lo, hi, scale, lo_open, hi_open

    def __repr__(self):
        return "%s%s, %s%s%s" % ("(" if self.lo_open else "[", self.lo, self.hi, ")" if self.hi_open else "]",
                                 "*D" if self.scale else "")

    def within(self, lo, hi):
        return self.scale == 0 and self.lo >= lo and self.hi <= hi

    def empty(self):
        return self.lo > self.hi or (self.lo == self.hi and (self.lo_open or self.hi_open))


TOP = None


class Env:
    """facts about terms on one path: term -> Iv; D = the duration term"""

    def __init__(self, dterm):
        self.D = dterm
        self.iv = {}
        self.infeasible = False

    def set(self, t, iv):
        if is_const(t):
            return
        old = self.iv.get(t)
        if old is not None and iv is not None:
            # meet
            lo, lo_open = (iv.lo, iv.lo_open) if (iv.lo > old.lo or (iv.lo == old.lo and iv.lo_open)) else (old.lo, old.lo_open)
            hi, hi_open = (iv.hi, iv.hi_open) if (iv.hi < old.hi or (iv.hi == old.hi and iv.hi_open)) else (old.hi, old.hi_open)
            iv = Iv(lo, hi, old.scale, lo_open, hi_open)
        self.iv[t] = iv
        if iv is not None and iv.empty():
            self.infeasible = True


def fval(t):
    if is_const(t) and isinstance(t[2], tuple) and t[2][0] == "f":
        return t[2][2]
    return None


def ival(t, env):
    """abstract value of term t (None = unknown)"""
    if t in env.iv:
        return env.iv[t]
    c = fval(t)
    if c is not None:
        return Iv(c, c)
    if t == env.D:
        return Iv(1, 1, 1)
    if t[0] == "bin":
        op, a, b = t[1], t[2], t[3]
        if op == "Div":
            if a == b and b == env.D:
                return Iv(1, 1)
            ia = ival(a, env)
            if b == env.D and ia is not None and ia.scale == 1:
                return Iv(ia.lo, ia.hi, 0, ia.lo_open, ia.hi_open)
            return None
        if op == "Rem":
            ia = ival(a, env)
            if b == env.D and ia is not None and ia.lo >= 0:
                # x % D for x >= 0 lies in [0, D)
                return Iv(0, 1, 1, False, True)
            return None
        ia, ib = ival(a, env), ival(b, env)
        if ia is None or ib is None:
            return None
        if op == "Mul":
            # multiplication by a non-negative constant
            if ib.scale == 0 and ib.lo == ib.hi and ib.lo >= 0:
                return Iv(ia.lo * ib.lo, ia.hi * ib.lo, ia.scale, ia.lo_open, ia.hi_open)
            if ia.scale == 0 and ia.lo == ia.hi and ia.lo >= 0:
                return Iv(ib.lo * ia.lo, ib.hi * ia.lo, ib.scale, ib.lo_open, ib.hi_open)
            return None
        if op == "Sub" and ia.scale == ib.scale:
            return Iv(ia.lo - ib.hi, ia.hi - ib.lo, ia.scale, ia.lo_open or ib.hi_open, ia.hi_open or ib.lo_open)
        if op == "Add" and ia.scale == ib.scale:
            return Iv(ia.lo + ib.lo, ia.hi + ib.hi, ia.scale, ia.lo_open or ib.lo_open, ia.hi_open or ib.hi_open)
    return None


def refine(env, cond, value):
    """branch refinement for comparisons a < b / a <= b (canonical forms of pse.mk_bin) with outcome value"""
    if cond[0] != "bin" or cond[1] not in ("Lt", "Le", "Eq"):
        return
    op, a, b = cond[1], cond[2], cond[3]
    if op == "Eq":
        if value == 1:
            ib = ival(b, env)
            ia = ival(a, env)
            if ib is not None:
                if ia is not None and ia.scale != ib.scale and ib.lo == ib.hi == 0:
                    ib = Iv(0, 0, ia.scale)
                env.set(a, ib)
        return
    # normalise to: a < b is true / false
    strict = (op == "Lt")
    if value == 1:
        lo_t, hi_t, st = a, b, strict          # a <(=) b
    else:
        lo_t, hi_t, st = b, a, not strict      # not(a < b) = b <= a ; not(a <= b) = b < a
    # lo_t <(st) hi_t
    il, ih = ival(lo_t, env), ival(hi_t, env)
    # the constant zero is compatible with either scale
    if il is not None and ih is not None and il.scale != ih.scale:
        if il.lo == il.hi == 0:
            il = Iv(0, 0, ih.scale)
        elif ih.lo == ih.hi == 0:
            ih = Iv(0, 0, il.scale)
    if ih is not None:
        cur = il or Iv(-INF, INF, ih.scale)
        if cur.scale == ih.scale:
            env.set(lo_t, Iv(cur.lo, ih.hi, cur.scale, cur.lo_open, st or ih.hi_open) if ih.hi <= cur.hi else cur)
    if il is not None:
        cur = ih or Iv(-INF, INF, il.scale)
        if cur.scale == il.scale:
            env.set(hi_t, Iv(il.lo, cur.hi, cur.scale, st or il.lo_open, cur.hi_open) if il.lo >= cur.lo else cur)
    # contradiction check when both are known
    il, ih = ival(lo_t, env), ival(hi_t, env)
    if il is not None and ih is not None and il.scale == ih.scale:
        if il.lo > ih.hi or (il.lo == ih.hi and (st or il.lo_open or ih.hi_open)):
            env.infeasible = True
