"""Common run model: obligations, evidence, known findings, replay files, exit code."""
import json
import os
import sys
import time
import traceback

HERE = os.path.dirname(os.path.abspath(__file__))
VERIF = os.path.dirname(HERE)
sys.path.insert(0, HERE)

import extract  # noqa: E402
from facts import Facts, AnchorLost  # noqa: E402
import pse  # noqa: E402


class Ctx:
    def __init__(self, prop, tier, seed):
        self.prop = prop
        self.tier = tier
        self.seed = seed
        self.obs = []          # obligations
        self.notes = []        # free-text evidence notes (not-decided remainders, sibling notes)
        self.analysed = {"units": set(), "functions": set(), "paths": 0, "call_sites": 0}
        self.assumptions = []
        self._facts = None
        self._facts_rel = None
        self._wit = {}
        self.extra = {}
        self.config = "debug"
        self.t0 = time.time()

    # ---- facts -----------------------------------------------------------------------------
    @property
    def facts(self):
        if self.config == "release":
            return self.facts_release
        if self._facts is None:
            d, info = extract.extract_repo()
            self._facts = Facts(d)
            self.extra["facts_repo"] = {"key": info["key"], "units": [u["file"] for u in info["units"]]}
            for u in info["units"]:
                self.analysed["units"].add(u["crate"] + ("(test)" if u["test"] else ""))
        return self._facts

    @property
    def facts_release(self):
        if self._facts_rel is None:
            d, info = extract.extract_repo(release=True)
            self._facts_rel = Facts(d)
            self.extra["facts_repo_release"] = {"key": info["key"]}
        return self._facts_rel

    def witness(self, family):
        if family not in self._wit:
            import witness
            self._wit[family] = witness.load(self, family)
        return self._wit[family]

    # ---- obligations -----------------------------------------------------------------------
    def ob(self, rule, instance, ok, detail="", site=None, trace=None, what=None):
        """One checked instance of a rule.  key never contains a line number."""
        key = "%s/%s/%s" % (self.prop, rule, instance)
        if what:
            key += "/" + what
        self.obs.append({"rule": rule, "instance": instance, "ok": bool(ok), "detail": detail, "site": site,
                         "key": key, "trace": trace or []})
        return ok

    def lost(self, rule, what, detail=""):
        """anchor lost: the entity a rule needs cannot be found -> violation, never a pass"""
        self.ob(rule, what, False, "anchor lost: " + detail, what="anchor-lost")

    def floor(self, rule, what, count, floor):
        self.ob(rule, "floor:" + what, count >= floor,
                "matched %d instance(s) of %s, floor (the fewest a correct implementation can have; guards against a vacuous pass) is %d" % (count, what, floor),
                what=None if count >= floor else "anchor-lost")

    def engine(self, **kw):
        return pse.Engine(self.facts if "facts" not in kw else kw.pop("facts"), **kw)

    def count_paths(self, paths, body):
        self.analysed["paths"] += len(paths)
        self.analysed["functions"].add(body["path"])


SINGLE_CONFIG = {"C20", "C15", "C16", "C17", "C08", "C09", "C01", "C03", "C11"}


def run_controls(ctx, module):
    """run the module's rules on the witness-controls crate in a scratch context; each expected finding must appear"""
    import witness
    w = witness.load(ctx, "controls")
    if w["facts"] is None or "witness_controls" in w["missing"]:
        ctx.ob("CTL", "controls-crate", False, "CHECKER-BROKEN: the positive-control crate did not compile: %s"
               % [e["message"] for e in w["errors"] if e["target"] == "witness_controls"][:3], what="controls-missing")
        return
    c2 = Ctx(ctx.prop, ctx.tier, ctx.seed)
    c2._facts = w["facts"]
    c2._wit = ctx._wit
    expected = module.controls(c2, w["facts"])
    fired = {(o["rule"], o["key"].split("/")[-1]) for o in c2.obs if not o["ok"]}
    res = []
    for (rule, what, desc) in expected:
        ok = any(r == rule and wh == what for (r, wh) in fired)
        res.append({"control": desc, "rule": rule, "fired": ok})
        ctx.ob("CTL", "control[%s/%s]" % (rule, desc), ok,
               "CHECKER-BROKEN: rule %s stayed silent on its positive control (%s); a rule that cannot fire proves nothing"
               % (rule, desc), what="control-silent")
    ctx.extra["positive_controls"] = res


def load_known():
    p = os.path.join(VERIF, "known_findings.json")
    if not os.path.exists(p):
        return {"known": [], "fixed": []}
    return json.load(open(p))


def run_check(prop, module, tier, seed, level, technique_note):
    ctx = Ctx(prop, tier, seed)
    crashed = None
    try:
        module.check(ctx)
        # thorough: decide every rule on the second build configuration as well (release: no debug assertions, no
        # overflow checks).  C20 compares the two configurations itself; the witness-based checks use one configuration.
        if tier == "thorough" and prop not in SINGLE_CONFIG:
            n0 = len(ctx.obs)
            ctx.config = "release"
            module.check(ctx)
            ctx.config = "debug"
            for o in ctx.obs[n0:]:
                o["instance"] = o["instance"] + " [release build]"
            ctx.extra["configurations"] = ["debug (debug-assertions, overflow-checks)", "release (both off)"]
        # positive controls: every zero-count rule must fire on its deliberately-violating control
        if hasattr(module, "controls"):
            run_controls(ctx, module)
    except AnchorLost as e:
        ctx.ob("anchor", "lookup", False, "anchor lost: %s" % e, what="anchor-lost")
    except extract.ExtractError as e:
        ctx.ob("facts", "extraction", False, "fact extraction failed: %s" % str(e)[-1500:], what="no-facts")
    except pse.Budget as e:
        ctx.ob("engine", "budget", False, "analysis budget exceeded (reported as failure, not as a pass): %s" % e,
               what="budget")
    except Exception as e:  # an internal error is a broken check, never a pass
        crashed = traceback.format_exc()
        ctx.ob("engine", "internal-error", False, crashed[-3000:], what="internal-error")
    known = load_known()
    known_keys = {k["key"]: k for k in known.get("known", []) if k.get("property") == prop}
    viol = [o for o in ctx.obs if not o["ok"]]
    new = [o for o in viol if o["key"] not in known_keys]
    kn = [o for o in viol if o["key"] in known_keys]
    # evidence/ describes runs against /repo itself; self-test runs against a scratch copy (MINA_REPO) write elsewhere
    evdir = os.path.join(VERIF, "evidence") if os.path.realpath(extract.REPO) == "/repo" \
        else os.path.join(VERIF, ".cache", "scratch-evidence")
    os.makedirs(os.path.join(evdir, "replay"), exist_ok=True)
    import glob as _glob
    for old_rp in _glob.glob(os.path.join(evdir, "replay", "%s-*.json" % prop)):
        os.remove(old_rp)      # replay files describe this run only
    for k, o in enumerate(kn):
        print("KNOWN-FINDING: property=%s %s [%s]" % (prop, known_keys[o["key"]].get("what", o["detail"]), o["key"]))
    replay_paths = []
    for k, o in enumerate(new):
        rp = os.path.join(evdir, "replay", "%s-%d.json" % (prop, k))
        json.dump({"property": prop, "rule": o["rule"], "instance": o["instance"], "key": o["key"],
                   "detail": o["detail"], "site": o["site"], "trace": o["trace"]}, open(rp, "w"), indent=1)
        replay_paths.append(rp)
    n_ob = len(ctx.obs)
    n_ok = sum(1 for o in ctx.obs if o["ok"])
    distinct = len({o["key"] for o in ctx.obs})
    samples = []
    seen_rules = set()
    for o in ctx.obs:
        if o["rule"] not in seen_rules:
            seen_rules.add(o["rule"])
            samples.append({"rule": o["rule"], "instance": o["instance"], "ok": o["ok"], "site": o["site"],
                            "detail": o["detail"][:400]})
    per_rule = {}
    for o in ctx.obs:
        r = per_rule.setdefault(o["rule"], {"obligations": 0, "discharged": 0})
        r["obligations"] += 1
        r["discharged"] += 1 if o["ok"] else 0
    cov = {
        "explanation": technique_note,
        "obligations": n_ob,
        "discharged": n_ok,
        "evaluations": max(n_ob, 1),
        "distinct_nontrivial": distinct,
        "rule": "one obligation per (rule, resolved instance) found in /repo's current MIR facts; an obligation is "
                "non-trivial when it names a concrete function/path/call site and distinct by its key",
        "samples": samples[:40],
        "per_rule": per_rule,
        "analysed": {"units": sorted(ctx.analysed["units"]), "functions": sorted(ctx.analysed["functions"]),
                     "paths_enumerated": ctx.analysed["paths"], "call_sites": ctx.analysed["call_sites"]},
        "not_decided": ctx.notes,
        "known_findings_matched": [o["key"] for o in kn],
        "checker_cmd": "./verif check %s --tier %s" % (prop, tier),
        "trusted_base": ["rustc nightly MIR construction", "tools/mina-facts", "analysis/pse.py std models"],
        "exhaustive": False,
    }
    cov.update(ctx.extra)
    ev = {"property_id": prop, "tier": tier, "seed": seed, "level": level, "coverage": cov,
          "assumptions": ctx.assumptions, "wall_s": round(time.time() - ctx.t0, 2), "violations": len(new)}
    json.dump(ev, open(os.path.join(evdir, prop + ".json"), "w"), indent=1, default=str)
    for o, rp in zip(new, replay_paths):
        print("  %s: %s  (%s)" % (o["key"], o["detail"][:600], o["site"] or "-"))
        print("VIOLATION property=%s replay=%s" % (prop, rp))
    print("%s %s: %d obligation(s), %d discharged, %d known finding(s), %d violation(s), %.1fs"
          % (prop, tier, n_ob, n_ok, len(kn), len(new), time.time() - ctx.t0))
    return 1 if new else 0
