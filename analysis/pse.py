"""PSE - path-sensitive summaries over MIR facts.

For a root body, enumerates acyclic paths (one loop iteration per loop, loop-carried state havocked at
the loop header) with workspace callees inlined, and returns per path: the branch decisions taken
(over value-graph terms), the ordered effects (opaque calls, panics, asserts), the final store and the
return term.  No solver: a path is pruned only by constant folding and by re-use of a decision already
taken on the same term on this path.

Terms are nested tuples:
  ('param', i)                      i-th argument of the root (1-based, as in MIR)
  ('const', ty, v)                  v: bool | int | ('f', bits, repr) | ('str', s) | ('zst',) | ('s', display)
  ('fn', id, path)
  ('agg', kind, name, variant, ((field, term), ...))     kind: adt|tuple|array|closure
  ('field', t, name) ('variant', t, V) ('index', t, i) ('deref', t) ('discr', t)
  ('bin', op, a, b) ('un', op, a) ('cast', kind, a, ty)
  ('ref', cell, path, mut)          cell: ('L', frame, local) | ('M', pointer-term)
  ('call', key, args[, seq])        result of an opaque call; args with refs shown as ('&', pointee)
  ('upd', base, elem, v)            base with one component replaced
  ('after', callterm, k, old)       pointee of the k-th (&mut) argument after an opaque call
  ('loop', header, what)            loop-carried state at a loop header
"""
import struct
import sys
from collections import namedtuple

sys.setrecursionlimit(10000)

CMP_FLIP = {"Gt": "Lt", "Ge": "Le"}
CMP_NEG = {"Lt": "Ge", "Le": "Gt", "Gt": "Le", "Ge": "Lt", "Eq": "Ne", "Ne": "Eq"}


class Budget(Exception):
    pass


def is_const(t):
    return isinstance(t, tuple) and t and t[0] == "const"


def const_val(t):
    return t[2]


def mk_bool(b):
    return ("const", "bool", bool(b))


def fnum(t):
    """numeric python value of a const term, or None"""
    if not is_const(t):
        return None
    v = t[2]
    if isinstance(v, bool):
        return None
    if isinstance(v, int):
        return v
    if isinstance(v, tuple) and v[0] == "f":
        return v[2]
    return None


def mk_bin(op, a, b, ty=None):
    # canonical comparisons: only Lt / Le / Eq / Ne survive; Gt, Ge are flipped
    if op in CMP_FLIP:
        return mk_bin(CMP_FLIP[op], b, a, ty)
    if op in ("Lt", "Le", "Eq", "Ne"):
        if is_const(a) and is_const(b):
            va, vb = a[2], b[2]
            na, nb = fnum(a), fnum(b)
            if na is not None and nb is not None:
                r = {"Lt": na < nb, "Le": na <= nb, "Eq": na == nb, "Ne": na != nb}[op]
                return mk_bool(r)
            if isinstance(va, bool) and isinstance(vb, bool) and op in ("Eq", "Ne"):
                return mk_bool((va == vb) == (op == "Eq"))
            if op in ("Eq", "Ne") and a[1] == b[1] and type(va) == type(vb) and not isinstance(va, tuple):
                return mk_bool((va == vb) == (op == "Eq"))
        if op in ("Eq", "Ne"):
            ua, ub = unit_variant(a), unit_variant(b)
            if ua is not None and ub is not None and ua[0] == ub[0]:
                return mk_bool((ua[1] == ub[1]) == (op == "Eq"))
            if a == b and op == "Eq" and not _may_be_float(a):
                return mk_bool(True)
            # order operands of symmetric comparisons deterministically: const last
            if is_const(a) or (unit_variant(a) is not None and unit_variant(b) is None):
                a, b = b, a
    return ("bin", op, a, b)


def _may_be_float(t):
    return True  # NaN != NaN: never fold x == x syntactically unless known non-float; keep conservative


def unit_variant(t):
    """(adt, variant) if t denotes a field-less enum value"""
    if isinstance(t, tuple) and t and t[0] == "agg" and t[1] == "adt" and t[3] is not None and not t[4]:
        return (t[2], t[3])
    if is_const(t) and isinstance(t[2], tuple) and t[2][0] == "variant":
        return (t[1], t[2][1])
    return None


def mk_not(a):
    if is_const(a) and isinstance(a[2], bool):
        return mk_bool(not a[2])
    if isinstance(a, tuple) and a[0] == "bin" and a[1] in CMP_NEG:
        return mk_bin(CMP_NEG[a[1]], a[2], a[3])
    if isinstance(a, tuple) and a[0] == "un" and a[1] == "Not":
        return a[2]
    return ("un", "Not", a)


Frame = namedtuple("Frame", "fid body bi si ret_dest ret_target depth on_path callsite")


class State:
    __slots__ = ("store", "known", "conds", "events", "seq", "frames", "nfid", "outcome", "ret", "notes")

    def __init__(self):
        self.store = {}
        self.known = {}
        self.conds = []
        self.events = []
        self.seq = 0
        self.frames = []
        self.nfid = 0
        self.outcome = None
        self.ret = None
        self.notes = []

    def fork(self):
        s = State()
        s.store = dict(self.store)
        s.known = dict(self.known)
        s.conds = list(self.conds)
        s.events = list(self.events)
        s.seq = self.seq
        s.frames = list(self.frames)
        s.nfid = self.nfid
        s.notes = list(self.notes)
        return s


class Engine:
    def __init__(self, facts, inline=None, models=None, max_depth=6, max_paths=50000, max_steps=2_000_000,
                 inline_loops=False):
        self.facts = facts
        self.inline_pred = inline or (lambda fn, body: True)
        self.models = dict(DEFAULT_MODELS)
        if models:
            self.models.update(models)
        self.max_depth = max_depth
        self.max_paths = max_paths
        self.max_steps = max_steps
        self.inline_loops = inline_loops
        self._loops = {}
        self._assert_sites = {}
        self._promoted = {}
        self._pconst = {}
        self._cur_site = None
        self._ended = []
        self.stats = {"paths": 0, "steps": 0, "inlined": set(), "opaque": set(), "max_depth_hit": 0}

    # ---------------------------------------------------------------- CFG helpers
    def succs(self, body, bi):
        t = body["blocks"][bi]["term"]
        k = t["k"]
        if k == "goto":
            return [t["target"]]
        if k == "switch":
            return [x[1] for x in t["targets"]] + [t["otherwise"]]
        if k in ("drop", "assert"):
            return [t["target"]]
        if k == "call":
            return [t["target"]] if t["target"] is not None else []
        return []

    def loops(self, body):
        """natural loops: header -> set of blocks (computed with a simple dominator analysis)"""
        bid = body["id"]
        if bid in self._loops:
            return self._loops[bid]
        n = len(body["blocks"])
        succ = [self.succs(body, i) for i in range(n)]
        preds = [[] for _ in range(n)]
        for i, ss in enumerate(succ):
            for s in ss:
                preds[s].append(i)
        # reachable
        reach = set()
        st = [0]
        while st:
            x = st.pop()
            if x in reach:
                continue
            reach.add(x)
            st.extend(succ[x])
        dom = {i: set(reach) for i in reach}
        dom[0] = {0}
        changed = True
        while changed:
            changed = False
            for i in sorted(reach):
                if i == 0:
                    continue
                ps = [p for p in preds[i] if p in reach]
                new = set(reach)
                for p in ps:
                    new &= dom[p]
                new |= {i}
                if new != dom[i]:
                    dom[i] = new
                    changed = True
        loops = {}
        for i in reach:
            for s in succ[i]:
                if s in dom[i]:  # back edge i -> s
                    blk = loops.setdefault(s, {s})
                    stack = [i]
                    while stack:
                        x = stack.pop()
                        if x in blk:
                            continue
                        blk.add(x)
                        stack.extend(p for p in preds[x] if p in reach)
        self._loops[bid] = loops
        return loops

    # ---------------------------------------------------------------- values and places
    def const_term(self, c):
        ty = c["ty"]
        if "fn" in c:
            f = c["fn"]
            return ("fn", f["id"], f["path"])
        if "b" in c:
            return ("const", ty, bool(c["b"]))
        if "f" in c:
            bits = int(c["bits"])
            if ty == "f32":
                pv = struct.unpack("f", struct.pack("I", bits))[0]
            else:
                pv = struct.unpack("d", struct.pack("Q", bits))[0]
            return ("const", ty, ("f", bits, pv))
        if "i" in c:
            return ("const", ty, int(c["i"]))
        if "str" in c:
            return ("const", ty, ("str", c["str"]))
        if "bits" in c:
            # enum constant: map the discriminant to its variant name when the ADT is known
            adt = self.facts.adts.get(ty)
            if adt and adt["kind"] == "enum" and "discrs" in adt:
                for v, d in zip(adt["variants"], adt["discrs"]):
                    if str(d) == str(c["bits"]) and not v["fields"]:
                        return ("agg", "adt", ty, v["name"], ())
            return ("const", ty, ("bits", int(c["bits"]), c["s"]))
        if c.get("zst"):
            adt = self.facts.adts.get(ty)
            if adt and adt["kind"] == "enum" and len(adt["variants"]) == 1 and not adt["variants"][0]["fields"]:
                return ("agg", "adt", ty, adt["variants"][0]["name"], ())
            return ("const", ty, ("zst", c["s"]))
        if c.get("static"):
            return ("const", ty, ("static", c["static"]))      # the address of a `static` item
        if c.get("uneval") and c.get("promoted") is None:
            v = self.const_item_value(c["uneval"])
            if v is not None:
                return v
        return ("const", ty, ("s", c["s"], c.get("uneval"), c.get("promoted")))

    def const_item_value(self, key):
        """value of a `const` item whose initialiser is an aggregate of constants (tuples, structs): its MIR body is
        summarised once (it must be straight-line and reference-free)"""
        ck = ("const-item", key)
        if ck in self._promoted:
            return self._promoted[ck]
        self._promoted[ck] = None
        body = self.facts.bodies.get(key)
        if body is not None and str(body.get("def_kind", "")).startswith(("Const", "AssocConst")):
            sub = Engine(self.facts, inline=self.inline_pred, max_depth=self.max_depth)
            try:
                ps = [p for p in sub.run(body) if p.outcome == "return"]
            except Budget:
                ps = []
            if len(ps) == 1 and isinstance(ps[0].ret, tuple) and ps[0].ret[0] in ("agg", "const") and \
                    not any(isinstance(x, tuple) and x and x[0] in ("ref", "call", "param") for x in subterms(ps[0].ret)):
                self._promoted[ck] = ps[0].ret
        return self._promoted[ck]

    def assert_sites(self, body):
        """blocks whose call computes the predicate of an assertion: the bool result is used only to choose between going on
        and a block that inevitably panics (`assert!(pred(..))`, `debug_assert!(self.is_consistent())`)"""
        bid = body["id"]
        if bid in self._assert_sites:
            return self._assert_sites[bid]
        blocks = body["blocks"]

        def panics(bi, depth=0):
            if depth > 8:
                return False
            t = blocks[bi]["term"]
            if t["k"] == "call":
                if t.get("target") is None:
                    fnp = (t["func"].get("fn") or {}).get("path", "")
                    return fnp.startswith(("core::panicking", "std::rt::begin_panic", "core::panic"))
                return panics(t["target"], depth + 1)
            if t["k"] == "goto":
                return panics(t["target"], depth + 1)
            return False

        out = set()
        for i, blk in enumerate(blocks):
            t = blk["term"]
            if t["k"] != "call" or t.get("target") is None or "fn" not in t["func"] or t["dest"]["p"]:
                continue
            l = t["dest"]["l"]
            nb = blocks[t["target"]]
            cond_local = l
            ok = True
            for st_ in nb["stmts"]:
                # at most a negation of the result in between
                if st_["k"] == "assign" and st_["rv"]["k"] == "unop" and st_["rv"].get("a", {}).get("place", {}).get("l") == cond_local \
                        and not st_["place"]["p"]:
                    cond_local = st_["place"]["l"]
                elif st_["k"] in ("storage_live", "storage_dead", "nop"):
                    continue
                else:
                    ok = False
            nt = nb["term"]
            if not ok or nt["k"] != "switch" or nt["discr"].get("place", {}).get("l") != cond_local or nt["discr"].get("place", {}).get("p"):
                continue
            tg = [b for _, b in nt["targets"]] + [nt["otherwise"]]
            if len(tg) == 2 and sum(1 for b in tg if panics(b)) == 1:
                out.add(i)
        self._assert_sites[bid] = out
        return out

    def lazy_static_value(self, key):
        """value of `static KEY: LazyLock<T> = LazyLock::new(<closure or fn>)`: the single return value of the initialiser"""
        ck = ("lazy-static", key)
        if ck in self._promoted:
            return self._promoted[ck]
        self._promoted[ck] = None
        body = self.facts.bodies.get(key)
        if body is None or not str(body.get("def_kind", "")).startswith("Static"):
            return None
        sub = Engine(self.facts, inline=lambda fn, b: False, max_depth=self.max_depth)
        try:
            ps = [p for p in sub.run(body) if p.outcome == "return"]
        except Budget:
            return None
        if len(ps) != 1 or ps[0].ret[0] != "call" or not ps[0].ret[1].endswith(("LazyLock::<T, F>::new", "LazyCell::<T, F>::new")):
            return None
        init = ps[0].ret[2][0]
        while isinstance(init, tuple) and init and init[0] == "cast":
            init = init[2]
        ib = self.closure_body(init) if init[0] == "agg" else self.facts.bodies.get(init[1]) if init[0] == "fn" else None
        if ib is None:
            return None
        sub2 = Engine(self.facts, inline=self.inline_pred, models=self.models, max_depth=self.max_depth)
        try:
            rs = [p for p in sub2.run(ib) if p.outcome == "return"]
        except Budget:
            return None
        if len(rs) == 1:
            self._promoted[ck] = rs[0].ret
        return self._promoted[ck]

    def cell_initial(self, cell):
        if cell[0] == "M":
            t = cell[1]
            if t[0] == "pconst" and t in self._pconst:
                return self._pconst[t]
            if t[0] == "tmp":
                return t[1]
            if is_const(t) and isinstance(t[2], tuple) and t[2][0] == "s" and len(t[2]) > 3 and t[2][3] is not None:
                v = self.promoted_value(t[2][2], t[2][3])
                if v is not None:
                    return v
            return ("deref", cell[1])
        return ("uninit", cell)

    def promoted_value(self, owner, idx):
        """pointee of a promoted constant `&<expr>`: summarise the promoted body (straight-line)"""
        key = (owner, idx)
        if key in self._promoted:
            return self._promoted[key]
        self._promoted[key] = None
        body = self.facts.bodies.get("%s::promoted[%d]" % (owner, idx))
        if body is not None:
            sub = Engine(self.facts, inline=self.inline_pred, max_depth=self.max_depth)
            ps = [p for p in sub.run(body) if p.outcome == "return"]
            if len(ps) == 1 and ps[0].ret[0] == "ref":
                v = sub.read_loc(ps[0], ps[0].ret[1], ps[0].ret[2])
                self._promoted[key] = self._export(sub, ps[0], v, key, [0])
        return self._promoted[key]

    def _export(self, sub, p, v, key, counter, depth=0):
        """make a value computed in a sub-engine self-contained: references into the sub-path's store become
        pointer constants whose pointees are registered with this engine"""
        if not isinstance(v, tuple) or not v or depth > 8:
            return v
        if v[0] == "ref":
            counter[0] += 1
            ptr = ("pconst", key[0], key[1], counter[0])
            self._pconst[ptr] = self._export(sub, p, sub.read_loc(p, v[1], v[2]), key, counter, depth + 1)
            return ptr
        if v[0] == "agg":
            return v[:4] + (tuple((n, self._export(sub, p, x, key, counter, depth + 1)) for n, x in v[4]),)
        return v

    def read_loc(self, st, cell, path):
        v = st.store.get(cell)
        if v is None:
            v = self.cell_initial(cell)
        for e in path:
            v = self.proj_read(st, v, e)
        return v

    def proj_read(self, st, v, e):
        k = e[0]
        if v[0] == "upd" and v[2] == e:
            return v[3]
        if v[0] == "upd" and k == "entry" and v[2][0] == "field":
            return self.proj_read(st, v[1], e)
        if k == "field":
            name = e[1]
            if v[0] == "agg":
                for fn_, fv in v[4]:
                    if fn_ == name:
                        return fv
                return ("field", v, name)
            if v[0] == "upd":
                if v[2] == e:
                    return v[3]
                if v[2][0] == "field":
                    return self.proj_read(st, v[1], e)
                return ("field", v, name)
            if v[0] == "optref" and name == "0":
                return v  # handled by caller through variant
            return ("field", v, name)
        if k == "downcast":
            if v[0] == "agg" and v[1] == "adt":
                return v
            if v[0] == "optref":
                # payload of Option<&T> produced by as_ref/as_mut on a known location
                cell, path, mut = v[1], v[2], v[3]
                return ("agg", "adt", "Option", e[1],
                        (("0", ("ref", cell, path + (("downcast", "Some"), ("field", "0")), mut)),))
            if v[0] == "upd" and v[2] == e:
                return v[3]
            return ("variant", v, e[1])
        if k == "index":
            return ("index", v, e[1])
        if k == "cindex":
            if v[0] == "agg" and v[1] in ("array", "tuple") and not e[3]:
                for fn_, fv in v[4]:
                    if fn_ == str(e[1]):
                        return fv
            return ("index", v, ("const", "usize", e[1]))
        if k == "deref":
            c, p = self.deref_target(st, v)
            return self.read_loc(st, c, p)
        return ("proj", v, e)

    def deref_target(self, st, v):
        if v[0] == "ref":
            return v[1], v[2]
        return ("M", v), ()

    def write_val(self, st, old, path, new):
        if not path:
            return new
        e = path[0]
        if e[0] == "field" and old[0] == "agg":
            fs = list(old[4])
            for i, (fn_, fv) in enumerate(fs):
                if fn_ == e[1]:
                    fs[i] = (fn_, self.write_val(st, fv, path[1:], new))
                    return old[:4] + (tuple(fs),)
        if e[0] == "downcast" and old[0] == "agg":
            return self.write_val(st, old, path[1:], new)
        if old[0] == "upd" and old[2] == e:
            return ("upd", old[1], e, self.write_val(st, old[3], path[1:], new))
        inner = self.proj_read(st, old, e) if e[0] != "deref" else None
        if e[0] == "deref":
            raise RuntimeError("deref inside value path")
        return ("upd", old, e, self.write_val(st, inner, path[1:], new))

    def write_loc(self, st, cell, path, new):
        old = st.store.get(cell)
        if old is None:
            old = self.cell_initial(cell)
        st.store[cell] = self.write_val(st, old, path, new)
        if cell[0] == "M":
            st.events.append({"kind": "store", "cell": cell, "path": path, "value": new, "seq": st.seq})
            st.seq += 1

    def place_loc(self, st, fr, place):
        cell = ("L", fr.fid, place["l"])
        path = ()
        for pe in place["p"]:
            k = pe["k"]
            if k == "deref":
                v = self.read_loc(st, cell, path)
                cell, path = self.deref_target(st, v)
            elif k == "field":
                path = path + (("field", pe["name"]),)
            elif k == "downcast":
                path = path + (("downcast", pe["variant"]),)
            elif k == "index":
                iv = self.read_loc(st, ("L", fr.fid, pe["l"]), ())
                path = path + (("index", iv),)
            elif k == "cindex":
                path = path + (("cindex", pe["offset"], pe["min_length"], pe["from_end"]),)
            elif k == "subslice":
                path = path + (("subslice", pe["from"], pe["to"], pe["from_end"]),)
            else:
                path = path + ((k,),)
        return cell, path

    def read_place(self, st, fr, place):
        c, p = self.place_loc(st, fr, place)
        return self.read_loc(st, c, p)

    def operand(self, st, fr, op):
        k = op["k"]
        if k in ("copy", "move"):
            return self.read_place(st, fr, op["place"])
        if k == "const":
            return self.const_term(op)
        return ("unknown", op.get("s", "?"))

    def rvalue(self, st, fr, rv):
        k = rv["k"]
        if k == "use":
            return self.operand(st, fr, rv["op"])
        if k == "ref" or k == "rawptr":
            c, p = self.place_loc(st, fr, rv["place"])
            return ("ref", c, p, bool(rv["mut"]))
        if k == "binop":
            a = self.operand(st, fr, rv["a"])
            b = self.operand(st, fr, rv["b"])
            op = rv["op"]
            if op.endswith("WithOverflow"):
                base = op[:-len("WithOverflow")]
                val = self.arith(base, a, b, rv["ty"])
                return ("agg", "tuple", None, None, (("0", val), ("1", ("overflow", base, a, b, rv["ty"]))))
            if op in ("Lt", "Le", "Gt", "Ge", "Eq", "Ne"):
                return mk_bin(op, a, b)
            if op in ("Div", "Rem") and rv["ty"] in ("f32", "f64"):
                st.events.append({"kind": "fdiv", "op": op, "a": a, "b": b, "body": fr.body["id"], "seq": st.seq,
                                  "site": self._cur_site})
            return self.arith(op, a, b, rv["ty"])
        if k == "unop":
            a = self.operand(st, fr, rv["a"])
            if rv["op"] == "Not":
                return mk_not(a)
            if rv["op"] == "PtrMetadata":
                return ("len", self.pointee_of(st, a))
            return ("un", rv["op"], a)
        if k == "cast":
            a = self.operand(st, fr, rv["op"])
            kind = rv["kind"]
            if kind in ("PointerCoercion", "PtrToPtr", "Subtype"):
                return a
            if kind == "IntToInt":
                return ("cast", kind, a, rv["ty"], rv.get("from_ty"))
            return ("cast", kind, a, rv["ty"])
        if k == "discr":
            v = self.read_place(st, fr, rv["place"])
            if v[0] == "optref":
                v = self.read_loc(st, v[1], v[2])
            return self.discr_of(v, rv)
        if k == "agg":
            fields = [self.operand(st, fr, f) for f in rv["fields"]]
            agg = rv["agg"]
            if agg == "adt":
                names = rv["field_names"]
                return ("agg", "adt", rv["adt"], rv["variant"] if rv["is_enum"] else None,
                        tuple((names[i] if i < len(names) else str(i), f) for i, f in enumerate(fields)))
            if agg == "closure":
                return ("agg", "closure", rv["id"], None, tuple((str(i), f) for i, f in enumerate(fields)))
            return ("agg", agg, None, None, tuple((str(i), f) for i, f in enumerate(fields)))
        if k == "repeat":
            return ("repeat", self.operand(st, fr, rv["op"]), rv["n"])
        return ("unknown", rv.get("s", k))

    def pointee_of(self, st, v):
        c, p = self.deref_target(st, v)
        return self.read_loc(st, c, p)

    def arith(self, op, a, b, ty):
        return ("bin", op, a, b, ty)

    def discr_of(self, v, rv):
        if v[0] == "agg" and v[1] == "adt" and v[3] is not None:
            for name, d in rv.get("variants", []):
                if name == v[3]:
                    return ("const", "discr", int(d))
        if v[0] == "upd" and v[2][0] == "downcast":
            for name, d in rv.get("variants", []):
                if name == v[2][1]:
                    return ("const", "discr", int(d))
        return ("discr", v, tuple(tuple(x) for x in rv.get("variants", [])))

    # ---------------------------------------------------------------- decisions
    def decide_switch(self, st, t):
        """returns known integer value of switch discriminant term, or None"""
        if is_const(t):
            v = t[2]
            if isinstance(v, bool):
                return int(v)
            if isinstance(v, int):
                return v
            if isinstance(v, tuple) and v[0] == "bits":
                return v[1]
            return None
        k = st.known.get(t)
        if k is not None and k[0] == "is":
            return k[1]
        if t[0] == "bin" and t[1] in ("Eq", "Ne") and t[2][0] == "discr" and is_const(t[3]) \
                and isinstance(t[3][2], int):
            kd = st.known.get(t[2])
            if kd is not None:
                if kd[0] == "is":
                    return int((kd[1] == t[3][2]) == (t[1] == "Eq"))
                if kd[0] == "not" and t[3][2] in kd[1]:
                    return int(t[1] != "Eq")
        if t[0] == "bin" and t[1] in ("Eq", "Ne") and t[2][0] != "discr" and unit_variant(t[3]) is not None:
            adt, var = unit_variant(t[3])
            vs = self.variants_of(adt)
            if vs:
                kk = [int(dv) for (n, dv) in vs if n == var]
                kd = st.known.get(("discr", t[2], vs))
                if kk and kd is not None:
                    if kd[0] == "is":
                        return int((kd[1] == kk[0]) == (t[1] == "Eq"))
                    if kd[0] == "not" and kk[0] in kd[1]:
                        return int(t[1] != "Eq")
        # Eq(x, c) with a different constant already known equal
        if t[0] == "bin" and t[1] in ("Eq", "Ne"):
            x, c = t[2], t[3]
            if is_const(c) or unit_variant(c) is not None:
                for (kt, kv) in st.known.items():
                    if kt[0] == "bin" and kt[1] == "Eq" and kt[2] == x and kt[3] != c and kv == ("is", 1) \
                            and (is_const(kt[3]) or unit_variant(kt[3]) is not None):
                        return 0 if t[1] == "Eq" else 1
                kk = st.known.get(("bin", "Ne" if t[1] == "Eq" else "Eq", x, c))
                if kk is not None and kk[0] == "is":
                    return 1 - kk[1]
        if t[0] == "bin" and t[1] in ("Lt", "Le"):
            # a<b known true => a<=b true ; a<=b false => a<b false ; b<a true => a<=b false ...
            a, b = t[2], t[3]
            if t[1] == "Le":
                k2 = st.known.get(("bin", "Lt", a, b))
                if k2 == ("is", 1):
                    return 1
                k3 = st.known.get(("bin", "Lt", b, a))
                if k3 == ("is", 1):
                    return 0
            else:
                k2 = st.known.get(("bin", "Le", a, b))
                if k2 == ("is", 0):
                    return 0
                k3 = st.known.get(("bin", "Le", b, a))
                if k3 == ("is", 0):
                    return 1
        return None

    def variants_of(self, adt_path):
        a = self.facts.adts.get(adt_path)
        if not a or a["kind"] != "enum" or "discrs" not in a:
            return None
        return tuple((v["name"], str(d)) for v, d in zip(a["variants"], a["discrs"]))

    def propagate(self, st, d, v):
        """a decision on the bool term Eq(discr(x), k) is also a decision on discr(x); likewise a decision on
        Eq(x, <field-less variant V>) decides discr(x)"""
        if d[0] == "bin" and d[1] in ("Eq", "Ne") and unit_variant(d[3]) is not None and d[2][0] != "discr":
            adt, var = unit_variant(d[3])
            vs = self.variants_of(adt)
            if vs:
                k = [int(dv) for (n, dv) in vs if n == var]
                if k:
                    self.propagate(st, ("bin", d[1], ("discr", d[2], vs), ("const", "discr", k[0])), v)
            return
        if d[0] == "bin" and d[1] in ("Eq", "Ne") and d[2][0] == "discr" and is_const(d[3]) \
                and isinstance(d[3][2], int):
            dis, k = d[2], d[3][2]
            truth = (v == 1) == (d[1] == "Eq")
            if truth:
                st.known[dis] = ("is", k)
            else:
                allv = frozenset(int(x[1]) for x in dis[2]) if len(dis) > 2 and dis[2] else None
                ex = self.excluded(st, dis) | {k}
                if allv is not None and len(allv - ex) == 1:
                    st.known[dis] = ("is", next(iter(allv - ex)))
                else:
                    st.known[dis] = ("not", ex)

    def excluded(self, st, t):
        k = st.known.get(t)
        if k is not None and k[0] == "not":
            return k[1]
        return frozenset()

    # ---------------------------------------------------------------- run
    def run(self, body, args=None, region=None):
        """Enumerate paths of `body`.  args: optional list of initial argument terms."""
        self._ended = []
        st = State()
        fr = self.push_frame(st, body, None, None, 0, None)
        for i in range(1, body["arg_count"] + 1):
            v = args[i - 1] if args and i - 1 < len(args) and args[i - 1] is not None else ("param", i)
            st.store[("L", fr.fid, i)] = v
        done = []
        work = [st]
        while work:
            s = work.pop()
            self.step_path(s, work, done)
            if len(done) + len(work) > self.max_paths:
                raise Budget("path budget exceeded in %s" % body["path"])
        done.extend(self._ended)
        self._ended = []
        self.stats["paths"] += len(done)
        return done

    def run_sub(self, st, body, args, depth):
        """run `body` to completion on a fork of st; -> [(state, return value)] (panicking paths go to _ended).
        args[0] is the callable itself (a closure literal is its own environment argument; a fn item takes none)"""
        if args and isinstance(args[0], tuple) and args[0] and args[0][0] == "fn":
            args = args[1:]
        s0 = st.fork()
        nf = self.push_frame(s0, body, None, "STOP", depth, None)
        self.bind_args(s0, nf, body, args, closure_call=False)
        done = []
        work = [s0]
        while work:
            s = work.pop()
            self.step_path(s, work, done)
            if len(done) + len(work) > self.max_paths:
                raise Budget("path budget exceeded in %s" % body["path"])
        out = []
        for d in done:
            if d.outcome == "subreturn":
                d.outcome = None
                rv = d.ret
                d.ret = None
                out.append((d, rv))
            elif d.outcome in ("panic",) and False:
                pass
            else:
                self._ended.append(d)
        return out

    def bind_args(self, st, nf, body, cargs, closure_call):
        cargs = list(cargs)
        if closure_call:
            env = cargs[0]
            tup = cargs[1] if len(cargs) > 1 else ("agg", "tuple", None, None, ())
            cargs = [env]
            if tup[0] == "agg":
                cargs += [fv for _, fv in tup[4]]
            else:
                for i in range(body["arg_count"] - 1):
                    cargs.append(("field", tup, str(i)))
        if body["def_kind"] == "Closure" and cargs:
            env = cargs[0]
            env_ty = body["locals"][1]["ty"]
            if env_ty.startswith("&") and not (isinstance(env, tuple) and env[0] == "ref"):
                tmp = ("L", nf.fid, -1)
                st.store[tmp] = env
                env = ("ref", tmp, (), True)
            elif not env_ty.startswith("&") and isinstance(env, tuple) and env[0] == "ref":
                env = self.read_loc(st, env[1], env[2])
            cargs[0] = env
        for i in range(1, body["arg_count"] + 1):
            st.store[("L", nf.fid, i)] = cargs[i - 1] if i - 1 < len(cargs) else ("unknown", "arg")

    def closure_body(self, v):
        if isinstance(v, tuple) and v and v[0] == "agg" and v[1] == "closure":
            return self.facts.bodies.get(v[2])
        if isinstance(v, tuple) and v and v[0] == "fn":
            return self.facts.bodies.get(v[1])
        return None

    def push_frame(self, st, body, ret_dest, ret_target, depth, callsite):
        fr = Frame(st.nfid, body, 0, 0, ret_dest, ret_target, depth, frozenset(), callsite)
        st.nfid += 1
        st.frames.append(fr)
        return fr

    def finish(self, st, outcome, done, ret=None):
        st.outcome = outcome
        st.ret = ret if ret is not None else ("noreturn", outcome)
        done.append(st)

    def step_path(self, st, work, done):
        """run st until it forks or ends"""
        while True:
            self.stats["steps"] += 1
            if self.stats["steps"] > self.max_steps:
                raise Budget("step budget exceeded")
            fr = st.frames[-1]
            body = fr.body
            blk = body["blocks"][fr.bi]
            # loop header handling on block entry (si == 0)
            if fr.si == 0:
                lp = self.loops(body)
                if fr.bi in lp:
                    if fr.bi in fr.on_path:
                        st.events.append({"kind": "backedge", "header": fr.bi, "body": body["id"], "seq": st.seq})
                        self.finish(st, "backedge", done)
                        return
                    self.havoc_loop(st, fr, lp[fr.bi], fr.bi)
                    fr = fr._replace(on_path=fr.on_path | {fr.bi})
                    st.frames[-1] = fr
            for si in range(fr.si, len(blk["stmts"])):
                s = blk["stmts"][si]
                if s["k"] == "assign":
                    self._cur_site = (body["id"], fr.bi, si, s.get("span"))
                    v = self.rvalue(st, fr, s["rv"])
                    c, p = self.place_loc(st, fr, s["place"])
                    self.write_loc(st, c, p, v)
                elif s["k"] == "setdiscr":
                    pass
            t = blk["term"]
            k = t["k"]
            if k == "goto":
                st.frames[-1] = fr._replace(bi=t["target"], si=0)
                continue
            if k == "drop":
                st.frames[-1] = fr._replace(bi=t["target"], si=0)
                continue
            if k == "assert":
                cond = self.operand(st, fr, t["cond"])
                ops = [self.operand(st, fr, o) for o in t["ops"]]
                st.events.append({"kind": "assert", "akind": t["kind"], "cond": cond, "expected": t["expected"],
                                  "ops": ops, "site": blk.get("tspan"), "body": body["id"], "bi": fr.bi,
                                  "seq": st.seq})
                st.seq += 1
                st.frames[-1] = fr._replace(bi=t["target"], si=0)
                continue
            if k == "return":
                rv = self.read_loc(st, ("L", fr.fid, 0), ())
                st.frames.pop()
                if not st.frames:
                    self.finish(st, "return", done, rv)
                    return
                if fr.ret_target == "STOP":
                    self.finish(st, "subreturn", done, rv)
                    return
                caller = st.frames[-1]
                if fr.ret_dest is not None:
                    c, p = fr.ret_dest
                    self.write_loc(st, c, p, rv)
                if fr.ret_target is None:
                    self.finish(st, "diverge", done)
                    return
                st.frames[-1] = caller._replace(bi=fr.ret_target, si=0)
                continue
            if k == "unreachable":
                self.finish(st, "unreachable", done)
                return
            if k in ("resume", "terminate"):
                self.finish(st, "unwind", done)
                return
            if k == "switch":
                d = self.operand(st, fr, t["discr"])
                known = self.decide_switch(st, d)
                targets = [(int(v), b) for v, b in t["targets"]]
                if known is not None:
                    tgt = t["otherwise"]
                    for v, b in targets:
                        if v == known:
                            tgt = b
                    st.frames[-1] = fr._replace(bi=tgt, si=0)
                    continue
                excl = self.excluded(st, d)
                # earlier equality tests on the same integer term (x == c decided false / true)
                eqs = [(kt[3][2], kv) for (kt, kv) in st.known.items()
                       if kt[0] == "bin" and kt[1] == "Eq" and kt[2] == d and is_const(kt[3]) and isinstance(kt[3][2], int)
                       and not isinstance(kt[3][2], bool) and kv[0] == "is"]
                if eqs and t.get("discr_ty") != "bool":
                    yes = [c for (c, kv) in eqs if kv[1] == 1]
                    if yes:
                        tgt = t["otherwise"]
                        for v, b in targets:
                            if v == yes[0]:
                                tgt = b
                        st.frames[-1] = fr._replace(bi=tgt, si=0)
                        continue
                    excl = excl | frozenset(c for (c, kv) in eqs if kv[1] == 0)
                site = blk.get("tspan")
                forks = []
                is_bool = t.get("discr_ty") == "bool"
                dd = d[1] if d[0] == "not" else d
                quiet = any(e.get("assert_predicate") and e["result"] == dd for e in st.events)
                for v, b in targets:
                    if v in excl:
                        continue
                    s2 = st.fork()
                    s2.known[d] = ("is", v)
                    self.propagate(s2, d, v)
                    if not quiet:
                        s2.conds.append((d, v, site))
                    s2.frames[-1] = fr._replace(bi=b, si=0)
                    forks.append(s2)
                # otherwise
                tv = frozenset(v for v, _ in targets)
                other_possible = True
                if is_bool and len(tv | excl) >= 2:
                    other_possible = False
                nvar = None
                if d[0] == "discr" and len(d) > 2 and d[2]:
                    allv = frozenset(int(x[1]) for x in d[2])
                    rest = allv - tv - excl
                    if not rest:
                        other_possible = False
                    elif len(rest) == 1:
                        nvar = next(iter(rest))
                if other_possible:
                    ob = t["otherwise"]
                    if body["blocks"][ob]["term"]["k"] != "unreachable" or body["blocks"][ob]["stmts"]:
                        s2 = st.fork()
                        if is_bool and len(targets) == 1:
                            ov = 1 - targets[0][0]
                            s2.known[d] = ("is", ov)
                            self.propagate(s2, d, ov)
                            if not quiet:
                                s2.conds.append((d, ov, site))
                        elif nvar is not None:
                            s2.known[d] = ("is", nvar)
                            s2.conds.append((d, nvar, site))
                        else:
                            s2.known[d] = ("not", tv | excl)
                            s2.conds.append((d, ("not", tuple(sorted(tv | excl))), site))
                        s2.frames[-1] = fr._replace(bi=ob, si=0)
                        forks.append(s2)
                work.extend(reversed(forks))
                return
            if k == "call":
                res = self.do_call(st, fr, t, blk)
                if res == "continue":
                    continue
                # res is list of states to continue with (forks) or [] when path ended
                for s2 in res[1:]:
                    work.append(s2)
                if res:
                    if res[0] is st:
                        continue
                    work.append(res[0])
                return
            if k == "tailcall":
                self.finish(st, "tailcall", done)
                return
            st.notes.append("unsupported terminator %s" % k)
            self.finish(st, "unsupported", done)
            return

    # ---------------------------------------------------------------- loops
    def havoc_loop(self, st, fr, blocks, header):
        body = fr.body
        written = set()
        borrowed = set()
        used = set()
        for bi in blocks:
            blk = body["blocks"][bi]
            for s in blk["stmts"]:
                if s["k"] != "assign":
                    continue
                pl = s["place"]
                if not any(pe["k"] == "deref" for pe in pl["p"]):
                    written.add(pl["l"])
                used.add(pl["l"])
                rv = s["rv"]
                if rv["k"] in ("ref", "rawptr") and rv["mut"]:
                    if not any(pe["k"] == "deref" for pe in rv["place"]["p"]):
                        borrowed.add(rv["place"]["l"])
                    used.add(rv["place"]["l"])
                for key in ("op", "a", "b"):
                    o = rv.get(key)
                    if isinstance(o, dict) and "place" in o:
                        used.add(o["place"]["l"])
                for o in rv.get("fields", []):
                    if "place" in o:
                        used.add(o["place"]["l"])
                if "place" in rv:
                    used.add(rv["place"]["l"])
            t = blk["term"]
            if t["k"] == "call":
                d = t["dest"]
                if not any(pe["k"] == "deref" for pe in d["p"]):
                    written.add(d["l"])
                used.add(d["l"])
                for o in t["args"]:
                    if "place" in o:
                        used.add(o["place"]["l"])
        # cells written through a pointer that is not a tracked reference (e.g. `(*self).field = ..` with self a
        # parameter): the whole pointee is loop-carried
        for bi in blocks:
            blk = body["blocks"][bi]
            places = [s_["place"] for s_ in blk["stmts"] if s_["k"] == "assign"]
            if blk["term"]["k"] == "call":
                places.append(blk["term"]["dest"])
            for pl in places:
                if pl["p"] and pl["p"][0]["k"] == "deref":
                    v = st.store.get(("L", fr.fid, pl["l"]))
                    if v is not None and v[0] != "ref" and pl["l"] not in written:
                        cell = ("M", v)
                        old = st.store.get(cell) or self.cell_initial(cell)
                        if not (isinstance(old, tuple) and old and old[0] == "loop"):
                            st.store[cell] = ("loop", (body["id"], header), ("loc", cell, ()), old)
        # locations reachable through mutable references held in locals used by the loop
        locs = set()
        for l in used | written | borrowed:
            v = st.store.get(("L", fr.fid, l))
            if v is not None:
                self._collect_mut_refs(v, locs)
        for l in sorted(written | borrowed):
            cell = ("L", fr.fid, l)
            old = st.store.get(cell)
            if old is not None and l in borrowed or (old is not None and l in written and self._live_in(body, blocks, header, l)):
                st.store[cell] = ("loop", (body["id"], header), ("local", l, body["locals"][l]["ty"]), old)
        for (cell, path) in sorted(locs, key=repr):
            if cell[0] == "L" and cell[1] == fr.fid and cell[2] in (written | borrowed):
                continue
            old = self.read_loc(st, cell, path)
            st.store[cell] = self.write_val(st, st.store.get(cell) or self.cell_initial(cell), path,
                                            ("loop", (body["id"], header), ("loc", cell, path), old))

    def _collect_mut_refs(self, v, out, depth=0):
        if not isinstance(v, tuple) or depth > 6:
            return
        if v and v[0] == "ref":
            if v[3]:
                out.add((v[1], v[2]))
            return
        if v and v[0] == "agg":
            for _, fv in v[4]:
                self._collect_mut_refs(fv, out, depth + 1)

    def _live_in(self, body, blocks, header, l):
        """is local l possibly read in the loop before being written (approximation: read anywhere in loop)"""
        return True

    # ---------------------------------------------------------------- calls
    def callee_info(self, t):
        f = t["func"]
        if f["k"] != "const" or "fn" not in f:
            return None
        return f["fn"]

    def arg_desc(self, st, v):
        if isinstance(v, tuple) and v and v[0] == "ref":
            return ("&mut" if v[3] else "&", self.read_loc(st, v[1], v[2]))
        return v

    def do_call(self, st, fr, t, blk):
        fn = self.callee_info(t)
        args = [self.operand(st, fr, a) for a in t["args"]]
        dest = self.place_loc(st, fr, t["dest"])
        target = t["target"]
        site = t.get("span")
        if fn is None:
            # indirect call through a fn pointer / closure value: opaque
            fn = {"id": "<indirect>", "path": "<indirect>", "name": "", "krate": ""}
        rid = fn.get("resolved", {}).get("id", fn["id"])
        key = fn.get("resolved", {}).get("path", fn["path"])
        # 1. models
        m = self.lookup_model(fn)
        if m is not None:
            r = m(self, st, fr, fn, args, t)
            if r is not None:
                return self.apply_results(st, fr, r, dest, target, site, fn)
        # 1b. a call through Fn / FnMut / FnOnce whose callee value is known: a closure literal is inlined like a direct
        #     closure call, a fn item becomes a direct call of that function (a generic helper given `Timeline::delay`
        #     or `|a, b| ..` behaves as if it had been written with them)
        if fn.get("trait", "").startswith("core::ops::function::Fn") and fn["name"] in ("call", "call_mut", "call_once") \
                and "resolved" not in fn and args:
            callee = args[0]
            k = 0
            while isinstance(callee, tuple) and callee and callee[0] == "ref" and k < 3:
                callee = self.read_loc(st, callee[1], callee[2])
                k += 1
            tup = args[1] if len(args) > 1 else ("agg", "tuple", None, None, ())
            if isinstance(callee, tuple) and callee and callee[0] == "agg" and callee[1] == "closure":
                cb = self.facts.bodies.get(callee[2])
                if cb is not None and fr.depth < self.max_depth and self.inline_pred(fn, cb) and \
                        (self.inline_loops or not self.loops(cb)):
                    self.stats["inlined"].add(cb["path"])
                    nf = self.push_frame(st, cb, dest, target, fr.depth + 1, site)
                    self.bind_args(st, nf, cb, [callee, tup], closure_call=True)
                    st.events.append({"kind": "enter", "callee": cb["path"], "fn": fn, "args": args, "site": site,
                                      "seq": st.seq, "depth": fr.depth + 1})
                    st.seq += 1
                    return "continue"
            if isinstance(callee, tuple) and callee and callee[0] == "fn" and tup[0] == "agg":
                fargs = [v for _, v in tup[4]]
                fb = self.facts.bodies.get(callee[1])
                name = callee[2].rsplit("::", 1)[-1]
                f2 = {"id": callee[1], "path": callee[2], "name": name, "krate": callee[2].split("::")[0], "substs": []}
                tr = callee[2].rsplit("::", 1)[0]
                if fb is None and tr in self.facts.traits_by_path():
                    f2["trait"] = tr
                if fb is not None and fr.depth < self.max_depth and self.inline_pred(f2, fb) and \
                        (self.inline_loops or not self.loops(fb)):
                    self.stats["inlined"].add(fb["path"])
                    nf = self.push_frame(st, fb, dest, target, fr.depth + 1, site)
                    self.bind_args(st, nf, fb, fargs, closure_call=False)
                    st.events.append({"kind": "enter", "callee": fb["path"], "fn": f2, "args": fargs, "site": site,
                                      "seq": st.seq, "depth": fr.depth + 1})
                    st.seq += 1
                    return "continue"
                return self.opaque_call(st, fr, f2, fargs, dest, target, site)
        # 2. inlining (trait-method calls left unresolved in polymorphic MIR are devirtualised when the receiver
        #    is an aggregate of a known type with exactly one impl of that trait method)
        body = self.facts.bodies.get(rid)
        if body is not None and (body.get("sig_output") or "") == "bool" and fr.bi in self.assert_sites(fr.body):
            # the predicate of an assertion (`debug_assert!(self.is_consistent())`): what it computes is the assertion's
            # business (C20 audits the panic), not part of the function's behaviour - it stays an opaque, pure call
            st.notes.append("assertion predicate not inlined: " + key)
            n_ev = len(st.events)
            r = self.opaque_call(st, fr, fn, args, dest, target, site, pure=True)
            if len(st.events) > n_ev:
                st.events[n_ev]["assert_predicate"] = True
            return r
        if body is None and "trait" in fn and "resolved" not in fn and args:
            recv = args[0]
            if isinstance(recv, tuple) and recv and recv[0] == "ref":
                recv = self.read_loc(st, recv[1], recv[2])
            if isinstance(recv, tuple) and recv and recv[0] == "agg" and recv[1] == "adt":
                cands = self.facts.impl_method(fn["trait"], recv[2], fn["name"])
                if len(cands) == 1:
                    body = cands[0]
                    key = body["path"]
        if body is not None and fr.depth < self.max_depth and self.inline_pred(fn, body):
            if self.inline_loops or not self.loops(body):
                self.stats["inlined"].add(body["path"])
                nf = self.push_frame(st, body, dest, target, fr.depth + 1, site)
                self.bind_args(st, nf, body, args, closure_call=(
                    body["def_kind"] == "Closure" and fn.get("trait", "").startswith("core::ops::function::Fn")))
                st.events.append({"kind": "enter", "callee": key, "fn": fn, "args": args, "site": site,
                                  "seq": st.seq, "depth": fr.depth + 1})
                st.seq += 1
                return "continue"
            else:
                st.notes.append("not inlined (loop): " + key)
        elif body is not None and fr.depth >= self.max_depth:
            self.stats["max_depth_hit"] += 1
            st.notes.append("not inlined (depth): " + key)
        # 3. opaque
        return self.opaque_call(st, fr, fn, args, dest, target, site)

    def lookup_model(self, fn):
        for cand in (fn.get("resolved", {}).get("path"), fn["path"]):
            if cand in self.models:
                return self.models[cand]
            m = _NUM_FROM.match(cand or "")
            if m:
                return _m_num_from(m.group(1), m.group(2))
        if "trait" in fn:
            k = fn["trait"] + "::" + fn["name"]
            if k in self.models:
                return self.models[k]
        if "impl_trait" in fn:
            k = fn["impl_trait"] + "::" + fn["name"]
            if k in self.models:
                return self.models[k]
        return None

    def opaque_call(self, st, fr, fn, args, dest, target, site, pure=None):
        key = fn.get("resolved", {}).get("path", fn["path"])
        self.stats["opaque"].add(key)
        descs = tuple(self.arg_desc(st, a) for a in args)
        has_mut = any(isinstance(a, tuple) and a and a[0] == "ref" and a[3] for a in args)
        if pure is None:
            pure = not has_mut and key not in IMPURE
        if pure:
            res = ("call", key, descs)
        else:
            res = ("call", key, descs, st.seq)
        ev = {"kind": "call", "callee": key, "fn": fn, "args": args, "descs": descs, "site": site,
              "seq": st.seq, "result": res, "depth": fr.depth, "body": fr.body["id"]}
        st.events.append(ev)
        st.seq += 1
        for i, a in enumerate(args):
            if isinstance(a, tuple) and a and a[0] == "ref" and a[3]:
                old = self.read_loc(st, a[1], a[2])
                self.write_loc_quiet(st, a[1], a[2], ("after", res, i, old))
        if target is None:
            ev["diverges"] = True
            st.outcome = "panic"
            return self._end(st, "panic")
        c, p = dest
        self.write_loc(st, c, p, res)
        st.frames[-1] = fr._replace(bi=target, si=0)
        return "continue"

    def write_loc_quiet(self, st, cell, path, new):
        old = st.store.get(cell)
        if old is None:
            old = self.cell_initial(cell)
        st.store[cell] = self.write_val(st, old, path, new)

    def _end(self, st, outcome):
        st.outcome = outcome
        st.ret = ("noreturn", outcome)
        self._ended.append(st)
        return []

    def apply_results(self, st, fr, results, dest, target, site, fn):
        """results: list of (state, value | ('panic', why))"""
        out = []
        for (s2, val) in results:
            if isinstance(val, tuple) and val and val[0] == "skip-iteration":
                # an iterator adaptor (filter) rejected the element: the loop goes on with the next one
                s2.events.append({"kind": "backedge", "header": None, "body": fr.body["id"], "seq": s2.seq,
                                  "why": "element filtered out"})
                s2.seq += 1
                self._end(s2, "backedge")
                continue
            if isinstance(val, tuple) and val and val[0] == "panic":
                s2.events.append({"kind": "panic", "why": val[1], "callee": fn["path"], "site": site,
                                  "seq": s2.seq, "body": fr.body["id"]})
                s2.seq += 1
                self._end(s2, "panic")
                continue
            if target is None:
                self._end(s2, "panic")
                continue
            c, p = dest
            self.write_loc(s2, c, p, val)
            s2.frames[-1] = s2.frames[-1]._replace(bi=target, si=0)
            out.append(s2)
        return out


# ------------------------------------------------------------------------------------------------
def run_paths(engine, body, args=None):
    return engine.run(body, args)


# ------------------------------------------------------------------------------------------------
# std / dependency models (DESIGN.md Appendix B)
IMPURE = {"core::iter::traits::iterator::Iterator::next"}


def _ret(st, v):
    return [(st, v)]


def m_identity_deref(eng, st, fr, fn, args, t):
    """Deref::deref / DerefMut::deref_mut for Box, Vec->slice, bevy Mut/Res/ResMut, lazy statics,
    glam vectors: an identity projection - the result points at the same object."""
    a = args[0]
    sty = fn.get("self_ty") or fn.get("impl_self") or ""
    base = sty.split("<")[0]
    if base in ("std::sync::lazy_lock::LazyLock", "core::cell::lazy::LazyCell"):
        # `static X: LazyLock<T> = LazyLock::new(|| init)`: *X is the value `init` returns (a straight-line initialiser is
        # summarised once per static; anything else stays opaque)
        st_id = next((x[2][1] for x in subterms(a) if is_const(x) and isinstance(x[2], tuple) and x[2][0] == "static"), None)
        if st_id is None and a[0] == "ref":
            cur = eng.read_loc(st, a[1], a[2])
            st_id = next((x[2][1] for x in subterms(cur) if is_const(x) and isinstance(x[2], tuple) and x[2][0] == "static"), None)
        v = eng.lazy_static_value(st_id) if st_id else None
        if v is None:
            return None
        cell = ("M", ("lazy", st_id))
        if cell not in st.store:
            st.store[cell] = v
        return _ret(st, ("ref", cell, (), False))
    if base in ("alloc::vec::Vec", "alloc::boxed::Box", "alloc::string::String"):
        if a[0] == "ref":
            return _ret(st, a)
        return _ret(st, ("ref", ("M", a), (), fn["name"] == "deref_mut"))
    if base.startswith("glam::"):
        # glam SIMD vectors deref to their component view: same object
        if a[0] == "ref":
            return _ret(st, a)
        return _ret(st, ("ref", ("M", a), (), False))
    if base in ("bevy::prelude::Mut", "bevy::prelude::Res", "bevy::prelude::ResMut", "bevy_ecs::change_detection::Mut",
                "bevy_ecs::change_detection::Res", "bevy_ecs::change_detection::ResMut", "bevy_ecs::world::Mut"):
        # the smart pointer value itself names the component cell
        v = eng.read_loc(st, a[1], a[2]) if a[0] == "ref" else ("deref", a)
        return _ret(st, ("ref", ("M", v), (), fn["name"] == "deref_mut"))
    return None


def _pointee(eng, st, a):
    if a[0] == "ref":
        return eng.read_loc(st, a[1], a[2])
    return ("deref", a)


def _opt_variant(v):
    if v[0] == "agg" and v[1] == "adt" and v[3] in ("Some", "None"):
        return v[3]
    return None


OPT_VARIANTS = (("None", "0"), ("Some", "1"))


def _fork_option(eng, st, v):
    """-> list of (state, 'Some'|'None', payload)"""
    var = _opt_variant(v)
    if var == "Some":
        return [(st, "Some", v[4][0][1])]
    if var == "None":
        return [(st, "None", None)]
    if v[0] == "optref":
        payload = ("ref", v[1], v[2] + (("downcast", "Some"), ("field", "0")), v[3])
        cur = eng.read_loc(st, v[1], v[2])
        var = _opt_variant(cur)
        if var is None and cur[0] == "upd" and cur[2][0] == "downcast":
            var = cur[2][1]
        if var == "Some":
            return [(st, "Some", payload)]
        if var == "None":
            return [(st, "None", None)]
        d = ("discr", cur, OPT_VARIANTS)
    else:
        d = ("discr", v, OPT_VARIANTS)
        payload = ("field", ("variant", v, "Some"), "0")
    k = eng.decide_switch(st, d)
    if k is not None:
        return [(st, "Some", payload)] if k == 1 else [(st, "None", None)]
    out = []
    for name, val in (("Some", 1), ("None", 0)):
        s2 = st.fork()
        s2.known[d] = ("is", val)
        s2.conds.append((d, val, "model"))
        out.append((s2, name, payload if name == "Some" else None))
    return out


def mk_some(v):
    return ("agg", "adt", "core::option::Option", "Some", (("0", v),))


def mk_none():
    return ("agg", "adt", "core::option::Option", "None", ())


def m_opt_is_some(eng, st, fr, fn, args, t):
    v = _pointee(eng, st, args[0])
    var = _opt_variant(v)
    want = fn["name"] == "is_some"
    if var is not None:
        return _ret(st, mk_bool((var == "Some") == want))
    if v[0] == "optref":
        v = eng.read_loc(st, v[1], v[2])
        var = _opt_variant(v)
        if var is not None:
            return _ret(st, mk_bool((var == "Some") == want))
    return _ret(st, mk_bin("Eq", ("discr", v, OPT_VARIANTS), ("const", "discr", 1 if want else 0)))


def m_opt_as_ref(eng, st, fr, fn, args, t):
    a = args[0]
    if a[0] != "ref":
        return None
    v = eng.read_loc(st, a[1], a[2])
    var = _opt_variant(v)
    mut = fn["name"] in ("as_mut", "as_deref_mut")
    if var == "None":
        return _ret(st, mk_none())
    if var == "Some":
        return _ret(st, mk_some(("ref", a[1], a[2] + (("downcast", "Some"), ("field", "0")), mut)))
    if v[0] == "optref":
        return _ret(st, v)
    return _ret(st, ("optref", a[1], a[2], mut))


def m_opt_unwrap(eng, st, fr, fn, args, t):
    v = args[0]
    out = []
    for (s2, var, payload) in _fork_option(eng, st, v):
        if var == "Some":
            out.append((s2, payload))
        else:
            out.append((s2, ("panic", fn["name"] + " on None")))
    return out


def m_opt_unwrap_or(eng, st, fr, fn, args, t):
    v = args[0]
    # `a.checked_add(b).unwrap_or(Duration::MAX)` is how std defines `a.saturating_add(b)`
    if v[0] == "call" and v[1] == "core::time::Duration::checked_add" and is_const(args[1]) and \
            "core::time::Duration::MAX" in str(args[1]):
        return _ret(st, ("call", "core::time::Duration::saturating_add", v[2]))
    out = []
    for (s2, var, payload) in _fork_option(eng, st, v):
        out.append((s2, payload if var == "Some" else args[1]))
    return out


def m_opt_unwrap_or_default(eng, st, fr, fn, args, t):
    v = args[0]
    out = []
    for (s2, var, payload) in _fork_option(eng, st, v):
        out.append((s2, payload if var == "Some" else ("call", "core::default::Default::default", ())))
    return out


def m_opt_map(eng, st, fr, fn, args, t):
    """Option::map(o, f) / is_some_and(o, f) with a closure literal: the closure is inlined on the Some arm"""
    body = eng.closure_body(args[1])
    if body is None or eng.loops(body):
        return None
    out = []
    for (s2, var, payload) in _fork_option(eng, st, args[0]):
        if var == "None":
            out.append((s2, mk_none() if fn["name"] == "map" else mk_bool(False)))
            continue
        for (s3, rv) in eng.run_sub(s2, body, [args[1], payload], fr.depth + 1):
            out.append((s3, mk_some(rv) if fn["name"] == "map" else rv))
    return out


RES_VARIANTS = (("Ok", "0"), ("Err", "1"))


def _fork_result(eng, st, v):
    """-> list of (state, 'Ok'|'Err', payload)"""
    if v[0] == "agg" and v[1] == "adt" and v[3] in ("Ok", "Err"):
        return [(st, v[3], v[4][0][1])]
    d = ("discr", v, RES_VARIANTS)
    k = eng.decide_switch(st, d)
    out = []
    for name, val in (("Ok", 0), ("Err", 1)):
        if k is not None and k != val:
            continue
        s2 = st if k is not None else st.fork()
        if k is None:
            s2.known[d] = ("is", val)
            s2.conds.append((d, val, "model"))
        out.append((s2, name, ("field", ("variant", v, name), "0")))
    return out


def _fork_bool(eng, st, b):
    """-> list of (state, 0|1) for the boolean term b"""
    k = eng.decide_switch(st, b)
    if k is not None:
        return [(st, int(k))]
    if b[0] == "not":
        return [(s2, 1 - v) for (s2, v) in _fork_bool(eng, st, b[1])]
    out = []
    for val in (1, 0):
        s2 = st.fork()
        s2.known[b] = ("is", val)
        eng.propagate(s2, b, val)
        s2.conds.append((b, val, "model"))
        out.append((s2, val))
    return out


def _tmp_ref(st, v):
    """a reference to a temporary holding v (for closures that take their argument by reference)"""
    cell = ("M", ("tmp", v))
    st.store[cell] = v
    return ("ref", cell, (), False)


def m_opt_filter(eng, st, fr, fn, args, t):
    """Option::filter(o, pred) with a closure literal"""
    body = eng.closure_body(args[1])
    if body is None or eng.loops(body):
        return None
    out = []
    for (s2, var, payload) in _fork_option(eng, st, args[0]):
        if var == "None":
            out.append((s2, mk_none()))
            continue
        for (s3, rv) in eng.run_sub(s2, body, [args[1], _tmp_ref(s2, payload)], fr.depth + 1):
            for (s4, b) in _fork_bool(eng, s3, rv):
                out.append((s4, mk_some(payload) if b else mk_none()))
    return out


def m_opt_cloned(eng, st, fr, fn, args, t):
    """Option<&T>::cloned / copied"""
    out = []
    for (s2, var, payload) in _fork_option(eng, st, args[0]):
        out.append((s2, mk_none() if var == "None" else mk_some(eng.pointee_of(s2, payload))))
    return out


def m_opt_and_then(eng, st, fr, fn, args, t):
    body = eng.closure_body(args[1])
    if body is None or eng.loops(body):
        return None
    out = []
    for (s2, var, payload) in _fork_option(eng, st, args[0]):
        if var == "None":
            out.append((s2, mk_none()))
            continue
        out.extend(eng.run_sub(s2, body, [args[1], payload], fr.depth + 1))
    return out


def m_opt_unwrap_or_else(eng, st, fr, fn, args, t):
    body = eng.closure_body(args[1])
    if body is None or eng.loops(body):
        return None
    out = []
    for (s2, var, payload) in _fork_option(eng, st, args[0]):
        if var == "Some":
            out.append((s2, payload))
            continue
        out.extend(eng.run_sub(s2, body, [args[1]], fr.depth + 1))
    return out


def m_opt_or_else(eng, st, fr, fn, args, t):
    """Option::or_else(o, f): o when it is Some, otherwise what the closure yields; Option::or(o, other) likewise"""
    out = []
    if fn["name"] == "or":
        for (s2, var, payload) in _fork_option(eng, st, args[0]):
            out.append((s2, mk_some(payload) if var == "Some" else args[1]))
        return out
    body = eng.closure_body(args[1])
    if body is None or eng.loops(body):
        return None
    for (s2, var, payload) in _fork_option(eng, st, args[0]):
        if var == "Some":
            out.append((s2, mk_some(payload)))
            continue
        out.extend(eng.run_sub(s2, body, [args[1]], fr.depth + 1))
    return out


def m_res_map(eng, st, fr, fn, args, t):
    """Result::map(r, f) with a closure literal: the closure is inlined on the Ok arm; an Err passes through"""
    body = eng.closure_body(args[1])
    if body is None or eng.loops(body):
        return None
    out = []
    res = "core::result::Result"
    for (s2, var, payload) in _fork_result(eng, st, args[0]):
        if var == "Err":
            out.append((s2, ("agg", "adt", res, "Err", (("0", payload),))))
            continue
        for (s3, rv) in eng.run_sub(s2, body, [args[1], payload], fr.depth + 1):
            out.append((s3, ("agg", "adt", res, "Ok", (("0", rv),))))
    return out


def m_opt_map_or(eng, st, fr, fn, args, t):
    """Option::map_or(o, default, f)"""
    body = eng.closure_body(args[2])
    if body is None or eng.loops(body):
        return None
    out = []
    for (s2, var, payload) in _fork_option(eng, st, args[0]):
        if var == "None":
            out.append((s2, args[1]))
            continue
        out.extend(eng.run_sub(s2, body, [args[2], payload], fr.depth + 1))
    return out


def m_res_unwrap_or_else(eng, st, fr, fn, args, t):
    """Result::unwrap_or_else(r, f)"""
    body = eng.closure_body(args[1])
    if body is None or eng.loops(body):
        return None
    out = []
    for (s2, var, payload) in _fork_result(eng, st, args[0]):
        if var == "Ok":
            out.append((s2, payload))
            continue
        out.extend(eng.run_sub(s2, body, [args[1], payload], fr.depth + 1))
    return out


def m_saturating_sub(eng, st, fr, fn, args, t):
    """unsigned a.saturating_sub(b) = max(a, b) - b"""
    sty = fn.get("impl_self") or fn.get("self_ty") or ""
    ty = sty if sty in ("usize", "u8", "u16", "u32", "u64", "u128") else None
    if ty is None:
        for cand in ("usize", "u8", "u16", "u32", "u64", "u128"):
            if "<impl %s>" % cand in fn.get("path", ""):
                ty = cand
    if ty is None:
        return None
    return _ret(st, ("bin", "Sub", ("max", args[0], args[1]), args[1], ty))


PUSH_FN = {"id": "alloc::vec::{impl#1}::push", "path": "alloc::vec::Vec::<T, A>::push", "name": "push", "krate": "alloc",
           "substs": [], "impl_self": "alloc::vec::Vec<T, A>"}


def m_vec_extend(eng, st, fr, fn, args, t):
    """Vec::extend(&mut v, option): pushes the payload when the option is Some, nothing otherwise"""
    tys = t.get("arg_tys") or []
    if len(args) != 2 or len(tys) < 2 or not tys[1].startswith("core::option::Option<") or args[0][0] != "ref":
        return None
    out = []
    for (s2, var, payload) in _fork_option(eng, st.fork(), args[1]):
        if var == "Some":
            descs = (eng.arg_desc(s2, args[0]), payload)
            res = ("call", PUSH_FN["path"], descs, s2.seq)
            s2.events.append({"kind": "call", "callee": PUSH_FN["path"], "fn": PUSH_FN, "args": [args[0], payload], "descs": descs,
                              "site": t.get("span"), "seq": s2.seq, "result": res, "depth": fr.depth, "body": fr.body["id"]})
            s2.seq += 1
            old = eng.read_loc(s2, args[0][1], args[0][2])
            eng.write_loc_quiet(s2, args[0][1], args[0][2], ("after", res, 0, old))
        out.append((s2, ("agg", "tuple", None, None, ())))
    return out


def m_vec_from_box(eng, st, fr, fn, args, t):
    """`vec![a, b, ..]`: the array written into a fresh `Box::new_uninit()` and turned into a Vec.  The result is the pure
    term vec-literal(array) - order and number of elements are those of the array."""
    b = args[0]
    core_ = next((x for x in subterms(b) if isinstance(x, tuple) and x and x[0] == "call" and x[1].endswith("::new_uninit")), None)
    if core_ is None:
        return None
    found = []
    for cell, val in st.store.items():
        if cell[0] == "M" and contains(cell[1], core_):
            found += [x for x in subterms(val) if isinstance(x, tuple) and x and x[0] == "agg" and x[1] == "array"]
    if len(found) != 1:
        return None
    return _ret(st, ("call", "vec-literal", (found[0],)))


def m_checked_sub(eng, st, fr, fn, args, t):
    """unsigned a.checked_sub(b): None when a < b, else Some(a - b)"""
    ty = None
    for cand in ("usize", "u8", "u16", "u32", "u64", "u128"):
        if "<impl %s>" % cand in fn.get("path", "") or fn.get("impl_self") == cand:
            ty = cand
    if ty is None:
        return None
    a, b = args[0], args[1]
    out = []
    for (s2, lt) in _fork_bool(eng, st, mk_bin("Lt", a, b)):
        out.append((s2, mk_none() if lt else mk_some(("bin", "Sub", a, b, ty))))
    return out


import re as _re
_NUM_FROM = _re.compile(r"^core::convert::num::<impl core::convert::From<(\w+)> for (\w+)>::from$")
_FLOATS = ("f32", "f64")


def _m_num_from(src, dst):
    """`Y::from(x: X)` for primitive numeric X, Y is the lossless widening cast `x as Y`"""
    def m(eng, st, fr, fn, args, t):
        if src in _FLOATS and dst in _FLOATS:
            kind = "FloatToFloat"
        elif dst in _FLOATS:
            kind = "IntToFloat"
        elif src in _FLOATS:
            return None
        else:
            kind = "IntToInt"
        return _ret(st, ("cast", kind, args[0], dst, src))
    return m


ITER = "core::iter::traits::iterator::Iterator"


def _adaptor(v):
    """(kind, base, closure) when v is Iterator::map/filter(base, closure literal)"""
    if isinstance(v, tuple) and v and v[0] == "call" and v[1] in (ITER + "::map", ITER + "::filter") and len(v[2]) == 2:
        return (v[1].rsplit("::", 1)[1], v[2][0], v[2][1])
    return None


def m_iter_next(eng, st, fr, fn, args, t):
    """next() on an iterator built with .filter(closure) / .map(closure): the closures are evaluated on the element the
    underlying iterator yields; an element rejected by a filter ends this loop iteration (the adaptor goes on to the next)"""
    a = args[0]
    if a[0] != "ref":
        return None
    v = eng.read_loc(st, a[1], a[2])
    hdr = None
    inner = v
    if v[0] == "loop":
        hdr, inner = v[1], v[3]
    if _adaptor(inner) is None:
        return None
    site = t.get("span")

    def nxt(s, itv):
        ad = _adaptor(itv)
        if ad is None:
            base = ("loop", hdr, ("iter-base", itv), itv) if hdr is not None else itv
            f2 = {"id": ITER + "::next", "path": ITER + "::next", "name": "next", "krate": "core", "trait": ITER,
                  "substs": [], "self_ty": "?"}
            descs = (("&mut", base),)
            res = ("call", ITER + "::next", descs, s.seq)
            s.events.append({"kind": "call", "callee": ITER + "::next", "fn": f2, "args": [], "descs": descs, "site": site,
                             "seq": s.seq, "result": res, "depth": fr.depth, "body": fr.body["id"]})
            s.seq += 1
            return [(s, res)]
        kind, base, clo = ad
        body = eng.closure_body(clo)
        if body is None or eng.loops(body):
            raise _NoModel()
        out = []
        for (s1, r) in nxt(s, base):
            if isinstance(r, tuple) and r and r[0] == "skip-iteration":
                out.append((s1, r))
                continue
            for (s2, var, payload) in _fork_option(eng, s1, r):
                if var == "None":
                    out.append((s2, mk_none()))
                elif kind == "map":
                    for (s3, rv) in eng.run_sub(s2, body, [clo, payload], fr.depth + 1):
                        out.append((s3, mk_some(rv)))
                else:
                    for (s3, rv) in eng.run_sub(s2, body, [clo, _tmp_ref(s2, payload)], fr.depth + 1):
                        for (s4, b) in _fork_bool(eng, s3, rv):
                            out.append((s4, mk_some(payload) if b else ("skip-iteration",)))
        return out

    try:
        return nxt(st.fork(), inner)
    except _NoModel:
        return None


class _NoModel(Exception):
    pass


def m_opt_default(eng, st, fr, fn, args, t):
    return _ret(st, mk_none())


def _handwritten(eng, fn, trait):
    """the call resolves to an impl of `trait` written by hand in the analysed crates (a derived impl comes from a macro
    expansion): such an impl is not modelled, it is inlined like any other function"""
    rb = eng.facts.bodies.get(fn.get("resolved", {}).get("id"))
    return rb is not None and rb.get("impl_exp") is False and rb.get("impl_trait", "").startswith(trait)


def m_clone(eng, st, fr, fn, args, t):
    if _handwritten(eng, fn, "core::clone::Clone"):
        return None
    return _ret(st, _pointee(eng, st, args[0]))


def m_eq(eng, st, fr, fn, args, t):
    # a hand-written `PartialEq` impl in the analysed crates is not structural equality: leave it to inlining (a derived
    # impl comes from a macro expansion and is structural by construction)
    if _handwritten(eng, fn, "core::cmp::PartialEq"):
        return None
    a = _pointee(eng, st, args[0])
    b = _pointee(eng, st, args[1])
    # comparisons through references compare the referents (`<&A as PartialEq<&B>>::eq`)
    sty = (fn.get("self_ty") or (fn.get("substs") or [""])[0]).strip()
    while sty.startswith("&"):
        sty = sty[1:].lstrip()
        if sty.startswith("mut "):
            sty = sty[4:]
        if sty.startswith("'"):
            sty = sty.split(" ", 1)[1] if " " in sty else ""
        a = eng.pointee_of(st, a)
        b = eng.pointee_of(st, b)
    if sty.startswith("core::option::Option<") and (_opt_variant(a) or _opt_variant(b)):
        # Option == Option with one side a literal Some(..) / None: decided by the other side's variant, then the payloads
        lit, other = (b, a) if _opt_variant(b) else (a, b)
        out = []
        for (s2, var, payload) in _fork_option(eng, st.fork(), other):
            if var != _opt_variant(lit):
                res = mk_bool(False)
            elif var == "None":
                res = mk_bool(True)
            else:
                x, y = payload, lit[4][0][1]
                inner = sty[len("core::option::Option<"):-1].strip()
                while inner.startswith("&"):
                    inner = inner[1:].lstrip()
                    if inner.startswith("mut "):
                        inner = inner[4:]
                    if inner.startswith("'"):
                        inner = inner.split(" ", 1)[1] if " " in inner else ""
                    x = eng.pointee_of(s2, x)
                    y = eng.pointee_of(s2, y)
                res = mk_bin("Eq", x, y)
            if fn["name"] == "ne":
                res = mk_not(res)
            out.append((s2, res))
        return out
    r = mk_bin("Eq", a, b)
    if a == b and _reflexive_type(eng, sty):
        r = mk_bool(True)       # x == x for a type without floats inside (NaN is the only irreflexive value)
    if fn["name"] == "ne":
        r = mk_not(r)
    return _ret(st, r)


def _reflexive_type(eng, ty):
    ty = ty.strip()
    if ty in ("bool", "char", "usize", "isize", "u8", "u16", "u32", "u64", "u128", "i8", "i16", "i32", "i64", "i128", "str"):
        return True
    a = eng.facts.adts.get(ty.split("<")[0])
    return bool(a) and a["kind"] == "enum" and all(not v["fields"] for v in a["variants"])


def m_try_branch(eng, st, fr, fn, args, t):
    v = args[0]
    sty = fn.get("self_ty", "")
    if sty.startswith("core::result::Result") and v[0] == "agg" and v[1] == "adt" and v[3] in ("Ok", "Err"):
        # `?` on a Result whose variant is known on this path (a literal Ok(..) / Err(..), e.g. out of `transpose`)
        if v[3] == "Ok":
            return _ret(st, ("agg", "adt", "core::ops::control_flow::ControlFlow", "Continue", (("0", v[4][0][1]),)))
        return _ret(st, ("agg", "adt", "core::ops::control_flow::ControlFlow", "Break", (("0", v),)))
    if not sty.startswith("core::option::Option"):
        return None
    out = []
    for (s2, var, payload) in _fork_option(eng, st, v):
        if var == "Some":
            out.append((s2, ("agg", "adt", "core::ops::control_flow::ControlFlow", "Continue", (("0", payload),))))
        else:
            out.append((s2, ("agg", "adt", "core::ops::control_flow::ControlFlow", "Break", (("0", mk_none()),))))
    return out


def m_opt_transpose(eng, st, fr, fn, args, t):
    """Option<Result<T, E>>::transpose: None -> Ok(None), Some(Ok(x)) -> Ok(Some(x)), Some(Err(e)) -> Err(e)"""
    out = []
    res = "core::result::Result"
    for (s2, var, payload) in _fork_option(eng, st, args[0]):
        if var == "None":
            out.append((s2, ("agg", "adt", res, "Ok", (("0", mk_none()),))))
            continue
        for (s3, rv, inner) in _fork_result(eng, s2, payload):
            if rv == "Ok":
                out.append((s3, ("agg", "adt", res, "Ok", (("0", mk_some(inner)),))))
            else:
                out.append((s3, ("agg", "adt", res, "Err", (("0", inner),))))
    return out


def m_from_residual(eng, st, fr, fn, args, t):
    sty = fn.get("self_ty", "")
    if sty.startswith("core::option::Option"):
        return _ret(st, mk_none())
    return None


def m_max(eng, st, fr, fn, args, t):
    return _ret(st, ("max", args[0], args[1]))


def m_len(eng, st, fr, fn, args, t):
    return _ret(st, ("len", _pointee(eng, st, args[0])))


def m_is_empty(eng, st, fr, fn, args, t):
    return _ret(st, mk_bin("Eq", ("len", _pointee(eng, st, args[0])), ("const", "usize", 0)))


def m_as_slice(eng, st, fr, fn, args, t):
    return _ret(st, args[0])


def m_into_iter_identity(eng, st, fr, fn, args, t):
    """the blanket `impl<I: Iterator> IntoIterator for I`: into_iter(it) is it"""
    return _ret(st, args[0])


def m_maplike_get(eng, st, fr, fn, args, t):
    """mina's MapLike::get / get_mut: a projection to the entry stored under `key` (the trait's
    contract; the EnumMap impl is checked separately to be `self[key.clone()].as_ref()/as_mut()`)."""
    a = args[0]
    if a[0] != "ref":
        a = ("ref", ("M", a), (), False)
    key = eng.pointee_of(st, args[1])
    return _ret(st, ("optref", a[1], a[2] + (("entry", key),), fn["name"] == "get_mut"))


def m_lazy_get(eng, st, fr, fn, args, t):
    """lazy_static: Lazy::get(&LAZY, init) -> &T where T is the value `init` returns (evaluated by
    summarising the initialiser; it must be straight-line)."""
    f = args[1]
    if f[0] != "fn":
        return None
    body = eng.facts.bodies.get(f[1])
    if body is None:
        return None
    sub = Engine(eng.facts, inline=eng.inline_pred, models=eng.models, max_depth=eng.max_depth)
    ps = [p for p in sub.run(body) if p.outcome == "return"]
    if len(ps) != 1:
        return None
    cell = ("M", ("lazy", f[1]))
    if cell not in st.store:
        st.store[cell] = ps[0].ret
    return _ret(st, ("ref", cell, (), False))


def _arith(op):
    def m(eng, st, fr, fn, args, t):
        a, b = args[0], args[1]
        subs = fn.get("substs") or []
        sty = (fn.get("self_ty") or (subs[0] if subs else "")).strip()
        rty = (subs[1] if len(subs) > 1 else "").strip()
        if sty.startswith("&") or (isinstance(a, tuple) and a and a[0] == "ref"):
            a = eng.pointee_of(st, a)
        if rty.startswith("&") or (isinstance(b, tuple) and b and b[0] == "ref"):
            b = eng.pointee_of(st, b)
        return _ret(st, ("bin", op, a, b, sty.lstrip("&").strip()))
    return m


DEFAULT_MODELS = {
    "lazy_static::lazy::Lazy::<T>::get": m_lazy_get,
    "core::ops::arith::Add::add": _arith("Add"),
    "core::ops::arith::Sub::sub": _arith("Sub"),
    "core::ops::arith::Mul::mul": _arith("Mul"),
    "core::ops::arith::Div::div": _arith("Div"),
    "core::ops::arith::Rem::rem": _arith("Rem"),
    "mina_core::animator::MapLike::get": m_maplike_get,
    "mina_core::animator::MapLike::get_mut": m_maplike_get,
    "core::ops::deref::Deref::deref": m_identity_deref,
    "core::ops::deref::DerefMut::deref_mut": m_identity_deref,
    "core::option::Option::<T>::is_some": m_opt_is_some,
    "core::option::Option::<T>::is_none": m_opt_is_some,
    "core::option::Option::<T>::as_ref": m_opt_as_ref,
    "core::option::Option::<T>::as_mut": m_opt_as_ref,
    # Option<Box<T>>::as_deref: a reference to the payload; Box deref is the identity projection (m_identity_deref)
    "core::option::Option::<T>::as_deref": m_opt_as_ref,
    "core::option::Option::<T>::as_deref_mut": m_opt_as_ref,
    "core::option::Option::<T>::unwrap": m_opt_unwrap,
    "core::option::Option::<T>::expect": m_opt_unwrap,
    "core::option::Option::<T>::unwrap_or": m_opt_unwrap_or,
    "core::option::Option::<T>::unwrap_or_default": m_opt_unwrap_or_default,
    "core::option::Option::<T>::map": m_opt_map,
    "core::result::Result::<T, E>::map": m_res_map,
    "<core::option::Option<T> as core::default::Default>::default": m_opt_default,
    "core::option::Option::<T>::is_some_and": m_opt_map,
    "core::option::Option::<T>::filter": m_opt_filter,
    "core::option::Option::<&T>::cloned": m_opt_cloned,
    "core::option::Option::<&T>::copied": m_opt_cloned,
    "core::option::Option::<T>::and_then": m_opt_and_then,
    "core::option::Option::<T>::unwrap_or_else": m_opt_unwrap_or_else,
    "core::option::Option::<T>::or_else": m_opt_or_else,
    "core::option::Option::<T>::or": m_opt_or_else,
    "core::option::Option::<T>::map_or": m_opt_map_or,
    "core::result::Result::<T, E>::unwrap_or_else": m_res_unwrap_or_else,
    "<alloc::vec::Vec<T, A> as core::iter::traits::collect::Extend<T>>::extend": m_vec_extend,
    "alloc::boxed::box_assume_init_into_vec_unsafe": m_vec_from_box,
    "core::num::<impl usize>::checked_sub": m_checked_sub,
    "core::num::<impl u32>::checked_sub": m_checked_sub,
    "core::num::<impl u64>::checked_sub": m_checked_sub,
    "core::num::<impl usize>::saturating_sub": m_saturating_sub,
    "core::num::<impl u32>::saturating_sub": m_saturating_sub,
    "core::num::<impl u64>::saturating_sub": m_saturating_sub,
    "core::iter::traits::iterator::Iterator::next": m_iter_next,
    "<I as core::iter::traits::collect::IntoIterator>::into_iter": m_into_iter_identity,
    "core::clone::Clone::clone": m_clone,
    "core::cmp::PartialEq::eq": m_eq,
    "core::cmp::PartialEq::ne": m_eq,
    "core::ops::try_trait::Try::branch": m_try_branch,
    "core::option::Option::<core::result::Result<T, E>>::transpose": m_opt_transpose,
    "core::ops::try_trait::FromResidual::from_residual": m_from_residual,
    "core::cmp::Ord::max": m_max,
    "alloc::vec::Vec::<T, A>::len": m_len,
    "core::slice::<impl [T]>::len": m_len,
    "alloc::vec::Vec::<T, A>::is_empty": m_is_empty,
    "core::slice::<impl [T]>::is_empty": m_is_empty,
    "alloc::vec::Vec::<T, A>::as_slice": m_as_slice,
    "alloc::vec::Vec::<T, A>::as_mut_slice": m_as_slice,
}


# ------------------------------------------------------------------------------------------------
# pretty printing of terms (reports, replay files)
def show(t, depth=0):
    if not isinstance(t, tuple) or not t:
        return repr(t)
    if depth > 12:
        return "..."
    k = t[0]
    d = depth + 1
    if k == "param":
        return "arg%d" % t[1]
    if k == "const":
        v = t[2]
        if isinstance(v, tuple):
            if v[0] == "f":
                if t[1] == "f32":
                    for prec in range(1, 10):
                        sx = "%.*g" % (prec, v[2])
                        if struct.unpack("f", struct.pack("f", float(sx)))[0] == v[2]:
                            return sx + ("" if ("." in sx or "e" in sx or "n" in sx) else ".0") + "f32"
                return repr(v[2]) + t[1]
            if v[0] == "str":
                return repr(v[1])
            return str(v[-1] if v[0] != "s" else v[1])
        return str(v)
    if k == "fn":
        return t[2]
    if k == "agg":
        name = (t[2] or "") if t[1] in ("adt", "closure") else t[1]
        if t[3]:
            name = name.split("::")[-1] + "::" + t[3]
        return "%s{%s}" % (name, ", ".join("%s: %s" % (a, show(b, d)) for a, b in t[4]))
    if k == "field":
        return "%s.%s" % (show(t[1], d), t[2])
    if k == "variant":
        return "(%s as %s)" % (show(t[1], d), t[2])
    if k == "deref":
        return "*%s" % show(t[1], d)
    if k == "discr":
        return "discr(%s)" % show(t[1], d)
    if k == "bin":
        return "(%s %s %s)" % (show(t[2], d), t[1], show(t[3], d))
    if k == "lazy":
        return "lazy(%s)" % t[1]
    if k == "un":
        return "%s(%s)" % (t[1], show(t[2], d))
    if k == "cast":
        return "(%s as %s)" % (show(t[2], d), t[3])
    if k == "ref":
        return "&%s%s%s" % ("mut " if t[3] else "", show_cell(t[1], d), "".join(show_elem(e, d) for e in t[2]))
    if k == "call":
        return "%s(%s)%s" % (t[1].split("::<")[0] if False else t[1], ", ".join(show(a, d) for a in t[2]),
                              "#%d" % t[3] if len(t) > 3 else "")
    if k in ("&", "&mut"):
        return "%s %s" % (k, show(t[1], d))
    if k == "upd":
        return "%s{%s := %s}" % (show(t[1], d), show_elem(t[2], d), show(t[3], d))
    if k == "after":
        return "after(%s, arg%d)" % (show(t[1], d), t[2])
    if k == "loop":
        return "loopvar(%s)" % (t[2][1] if t[2][0] == "local" else show_cell(t[2][1]),)
    if k == "len":
        return "len(%s)" % show(t[1], d)
    if k == "max":
        return "max(%s, %s)" % (show(t[1], d), show(t[2], d))
    if k == "optref":
        return "as_ref(%s%s)" % (show_cell(t[1], d), "".join(show_elem(e, d) for e in t[2]))
    return "%s(%s)" % (k, ", ".join(show(x, d) if isinstance(x, tuple) else str(x) for x in t[1:]))


def show_cell(c, d=0):
    if c[0] == "L":
        return "_%d@%d" % (c[2], c[1])
    if c[0] == "M":
        return "*[%s]" % show(c[1], d)
    return str(c)


def show_elem(e, d=0):
    if e[0] == "field":
        return "." + e[1]
    if e[0] == "downcast":
        return " as " + e[1]
    if e[0] == "index":
        return "[%s]" % show(e[1], d)
    return "." + str(e)


def subterms(t):
    """all tuple subterms, pre-order"""
    if isinstance(t, tuple):
        if t and isinstance(t[0], str):
            yield t
        for x in t:
            if isinstance(x, tuple):
                for y in subterms(x):
                    yield y


def contains(t, sub):
    for x in subterms(t):
        if x == sub:
            return True
    return False
