"""Term normalisers (DESIGN.md 3.2): exact-IEEE rewriting and rational-function normal form."""
from fractions import Fraction
import pse
from pse import is_const


def fconst(t):
    if is_const(t) and isinstance(t[2], tuple) and t[2][0] == "f":
        return t[2][2]
    return None


def subst(t, mapping):
    if t in mapping:
        return mapping[t]
    if isinstance(t, tuple):
        return tuple(subst(x, mapping) if isinstance(x, tuple) else x for x in t)
    return t


def F(x, ty="f32"):
    import struct
    bits = struct.unpack("I", struct.pack("f", x))[0] if ty == "f32" else struct.unpack("Q", struct.pack("d", x))[0]
    return ("const", ty, ("f", bits, float(x)))


def exact(t, premise_representable=True):
    """Rewrite with identities that hold bit-exactly for finite floats only:
       1-0 -> 1, 1-1 -> 0, a*1 -> a, 1*a -> a, a*0 -> 0, 0*a -> 0, a+0 -> a, 0+a -> a, a-0 -> a,
       a/1 -> a, c1 op c2 -> folded when the result is exact (0/1 arithmetic),
       round(int as f32) -> int as f32, (x as f32) as f64 as f32 round trips under the representability premise,
       from_f32(int as f32) -> Some(int)."""
    if not isinstance(t, tuple) or not t:
        return t
    k = t[0]
    if k == "bin":
        op = t[1]
        a = exact(t[2], premise_representable)
        b = exact(t[3], premise_representable)
        fa, fb = fconst(a), fconst(b)
        if fa is not None and fb is not None and fa in (0.0, 1.0) and fb in (0.0, 1.0):
            if op == "Sub":
                return F(fa - fb, a[1])
            if op == "Add" and fa + fb <= 1.0:
                return F(fa + fb, a[1])
            if op == "Mul":
                return F(fa * fb, a[1])
        if op == "Mul":
            if fb == 1.0:
                return a
            if fa == 1.0:
                return b
            if fb == 0.0 or fa == 0.0:
                return F(0.0, (a if fa == 0.0 else b)[1])   # finite operands (premise)
        if op == "Add":
            if fb == 0.0:
                return a
            if fa == 0.0:
                return b
        if op == "Sub" and fb == 0.0:
            return a
        if op == "Div" and fb == 1.0:
            return a
        if op == "Div" and a == b and fa != 0.0:
            # d / d -> 1 for finite non-zero d (premise stated by the rule using it)
            return F(1.0, "f32")
        return ("bin", op, a, b) + tuple(t[4:])
    if k == "cast":
        a = exact(t[2], premise_representable)
        kind = t[1]
        if kind == "FloatToFloat" and a[0] == "cast" and a[1] == "FloatToFloat" and premise_representable:
            # (x as f32) as f64 with x: f64 representable in f32  ->  x
            return a[2]
        return ("cast", kind, a, t[3])
    if k == "call":
        args = tuple(exact(x, premise_representable) if isinstance(x, tuple) else x for x in t[2])
        name = t[1]
        if name.endswith("f32>::round") or name.endswith("::round"):
            a = args[0]
            if a[0] == "cast" and a[1] == "IntToFloat":
                return a
        if name.endswith("FromPrimitive>::from_f32") or name.endswith("::from_f32"):
            a = args[0]
            if a[0] == "cast" and a[1] == "IntToFloat" and premise_representable:
                return pse.mk_some(a[2])
        return ("call", name, args) + tuple(t[3:])
    if k in ("field", "variant"):
        b = exact(t[1], premise_representable)
        if k == "variant" and b[0] == "agg" and b[3] == t[2]:
            return b
        if k == "field" and b[0] == "agg":
            for n, v in b[4]:
                if n == t[2]:
                    return v
        return (k, b, t[2])
    if k in ("&", "&mut"):
        return (k, exact(t[1], premise_representable))
    return t


# ---------------------------------------------------------------------------------------------------
# polynomials over Q in symbolic atoms: {monomial (sorted tuple of (atom, power)) : Fraction}
class NotPoly(Exception):
    pass


def p_const(c):
    return {(): Fraction(c)} if c != 0 else {}


def p_atom(a):
    return {((a, 1),): Fraction(1)}


def p_add(p, q, sign=1):
    r = dict(p)
    for m, c in q.items():
        r[m] = r.get(m, 0) + sign * c
        if r[m] == 0:
            del r[m]
    return r


def p_mul(p, q):
    r = {}
    for m1, c1 in p.items():
        for m2, c2 in q.items():
            d = dict(m1)
            for a, e in m2:
                d[a] = d.get(a, 0) + e
            m = tuple(sorted(d.items(), key=repr))
            r[m] = r.get(m, 0) + c1 * c2
            if r[m] == 0:
                del r[m]
    return r


def poly(t, atoms=None):
    """polynomial of a value-graph term; leaves that are not arithmetic become atoms.  Casts between float
    widths and int->float casts are transparent (real-arithmetic reading)."""
    if is_const(t):
        v = t[2]
        if isinstance(v, tuple) and v[0] == "f":
            return p_const(Fraction(repr(v[2])) if v[2] == v[2] and abs(v[2]) != float("inf") else 0)
        if isinstance(v, int) and not isinstance(v, bool):
            return p_const(v)
    if t[0] == "bin" and t[1] in ("Add", "Sub", "Mul"):
        a, b = poly(t[2], atoms), poly(t[3], atoms)
        if t[1] == "Add":
            return p_add(a, b)
        if t[1] == "Sub":
            return p_add(a, b, -1)
        return p_mul(a, b)
    if t[0] == "bin" and t[1] == "Div":
        b = poly(t[3], atoms)
        if list(b.keys()) == [()]:
            return p_mul(poly(t[2], atoms), p_const(1 / b[()]))
        raise NotPoly(t)
    if t[0] == "cast" and t[1] in ("FloatToFloat", "IntToFloat"):
        return poly(t[2], atoms)
    if t[0] == "cast" and t[1] == "IntToInt" and len(t) > 4 and widening(t[4], t[3]):
        return poly(t[2], atoms)
    return p_atom(t)


def p_subst(p, atom, value_poly):
    r = {}
    for m, c in p.items():
        term = {(): c}
        for a, e in m:
            base = value_poly if a == atom else p_atom(a)
            for _ in range(e):
                term = p_mul(term, base)
        r = p_add(r, term)
    return r


def p_degree(p, atom):
    d = 0
    for m in p:
        for a, e in m:
            if a == atom:
                d = max(d, e)
    return d


def p_show(p):
    if not p:
        return "0"
    out = []
    for m, c in sorted(p.items(), key=repr):
        mon = "*".join(("%s^%d" % (pse.show(a), e)) if e > 1 else pse.show(a) for a, e in m)
        out.append(("%s*%s" % (c, mon)) if mon else str(c))
    return " + ".join(out)


_BITS = {"u8": 8, "u16": 16, "u32": 32, "u64": 64, "u128": 128, "usize": 64, "i8": 8, "i16": 16, "i32": 32, "i64": 64,
         "i128": 128, "isize": 64}


def widening(frm, to):
    """value-preserving integer cast"""
    if frm not in _BITS or to not in _BITS:
        return False
    if frm[0] == to[0]:
        return _BITS[to] >= _BITS[frm]
    return frm[0] == "u" and _BITS[to] > _BITS[frm]
