"""Helpers shared by the rule modules."""
from facts import AnchorLost
import pse
from pse import show, subterms, is_const


def field_roles(adt, spec):
    """Identify the fields of a struct by *type* (so that a private rename does not break a rule).
    spec: {role: predicate(type string)}.  Every role must match exactly one field."""
    fields = adt["variants"][0]["fields"]
    out = {}
    for role, pred in spec.items():
        m = [f["name"] for f in fields if pred(f["ty"])]
        if len(m) != 1:
            raise AnchorLost("cannot identify field '%s' of %s by type (candidates: %s)" % (role, adt["path"], m))
        out[role] = m[0]
    return out


def decided(path, pred):
    """value decided on this path for the first condition whose term satisfies pred, else None"""
    for (t, v, site) in path.conds:
        r = pred(t)
        if r:
            return v if r is True else r(v)
    return None


def calls(path, match):
    return [e for e in path.events if e["kind"] == "call" and match(e)]


def is_trait_call(e, trait, name):
    fn = e["fn"]
    return fn.get("name") == name and (fn.get("trait") == trait or fn.get("impl_trait") == trait)


def stores(path, cell=None):
    return [e for e in path.events if e["kind"] == "store" and (cell is None or e["cell"] == cell)]


def final_field(engine, path, cell, fieldname):
    return engine.read_loc(path, cell, (("field", fieldname),))


def describe_path(path, maxc=12):
    out = []
    for (t, v, site) in path.conds[:maxc]:
        out.append("%s = %s  [%s]" % (show(t), v, site))
    return out


def trace_of(path, maxe=40):
    tr = []
    for (t, v, site) in path.conds:
        tr.append({"branch": show(t), "taken": str(v), "at": site})
    for e in path.events[:maxe]:
        if e["kind"] == "call":
            tr.append({"call": e["callee"], "args": [show(a) for a in e["descs"]], "at": e.get("site")})
        elif e["kind"] == "store":
            tr.append({"store": pse.show_cell(e["cell"]) + "".join(pse.show_elem(x) for x in e["path"]),
                       "value": show(e["value"])})
        elif e["kind"] in ("panic", "assert"):
            tr.append({e["kind"]: e.get("why") or e.get("akind"), "at": e.get("site")})
    return tr


def const_f(t):
    """python float of an f32/f64 constant term, else None"""
    if is_const(t) and isinstance(t[2], tuple) and t[2][0] == "f":
        return t[2][2]
    return None


def is_none(t):
    return t[0] == "agg" and t[1] == "adt" and t[3] == "None"


def is_some(t):
    return t[0] == "agg" and t[1] == "adt" and t[3] == "Some"


def mentions(t, pred):
    for x in subterms(t):
        if pred(x):
            return True
    return False


def field_writers(facts, adt_path, crates=None):
    """{field: {function path: [kinds]}} for every non-test body that may write a field of the struct:
    direct assignment through a place mentioning the field, a mutable borrow of such a place, a call whose
    destination is such a place, or an aggregate constructing the struct ('ctor')."""
    out = {}

    def note(field, body, kind):
        out.setdefault(field, {}).setdefault(body["path"], []).append(kind)

    for bid, b in facts.bodies.items():
        crate, test = facts.body_unit[bid]
        if test or (crates and crate not in crates):
            continue
        for blk in b["blocks"]:
            for s in blk["stmts"]:
                if s["k"] != "assign":
                    continue
                for pe in s["place"]["p"]:
                    if pe["k"] == "field" and pe.get("owner") == adt_path:
                        note(pe["name"], b, "assign")
                rv = s["rv"]
                if rv["k"] in ("ref", "rawptr") and rv["mut"]:
                    for pe in rv["place"]["p"]:
                        if pe["k"] == "field" and pe.get("owner") == adt_path:
                            note(pe["name"], b, "borrow-mut")
                if rv["k"] == "agg" and rv.get("adt") == adt_path:
                    for n in rv["field_names"]:
                        note(n, b, "ctor")
            t = blk["term"]
            if t["k"] == "call":
                for pe in t["dest"]["p"]:
                    if pe["k"] == "field" and pe.get("owner") == adt_path:
                        note(pe["name"], b, "call-dest")
    return out


def helpers_only_of(facts, crate, is_root):
    """ids of the non-test bodies of `crate` that no call chain from an entry point of the crate (a pub function, a
    trait-impl method) reaches except through a root: the roots themselves and the private helpers (and closures) that
    serve only them.  Edges: direct calls with a resolved or declared callee; a closure belongs to its parent."""
    bodies = {bid: b for bid, b in facts.bodies.items()
              if facts.body_unit[bid][0] == crate and not facts.body_unit[bid][1] and "::promoted[" not in bid}
    succ = {bid: set() for bid in bodies}
    for bid, b in bodies.items():
        for blk in b["blocks"]:
            t = blk["term"]
            if t["k"] == "call" and "fn" in t["func"]:
                fn = t["func"]["fn"]
                for cid in (fn.get("resolved", {}).get("id"), fn.get("id")):
                    if cid in bodies:
                        succ[bid].add(cid)
            for st in blk["stmts"]:
                if st["k"] == "assign" and st["rv"].get("k") == "agg" and st["rv"].get("agg") == "closure":
                    cid = st["rv"].get("id")
                    if cid in bodies:
                        succ[bid].add(cid)
        par = b.get("parent")
        if b["def_kind"] == "Closure" and par in bodies:
            succ[par].add(bid)
    roots = {bid for bid, b in bodies.items() if is_root(b)}
    entries = [bid for bid, b in bodies.items() if bid not in roots and b["def_kind"] != "Closure"
               and (b.get("vis") == "pub" or b.get("impl_trait"))]
    reach_other = set()
    work = list(entries)
    while work:
        x = work.pop()
        if x in reach_other or x in roots:
            continue
        reach_other.add(x)
        work.extend(succ[x])
    return {bid for bid in bodies if bid not in reach_other}


def call_is(t, trait, name):
    """is term t the result of calling trait::name (statically dispatched to an impl or not)?"""
    if not (isinstance(t, tuple) and t and t[0] == "call"):
        return False
    k = t[1]
    return k == trait + "::" + name or k.endswith(" as " + trait + ">::" + name)
