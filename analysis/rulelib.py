"""Helpers shared by the rule modules."""
from facts import AnchorLost
import pse
from pse import show, subterms, is_const


def field_roles(adt, spec):
    """Identify the fields of a struct by *type* (so that a private rename does not break a rule).
    spec: {role: predicate(type string)}.  Every role must match exactly one field."""
    fields = adt["variants"][0]["fields"]
    out = {}
    for role, pred in spec.items():
        m = [f["name"] for f in fields if pred(f["ty"])]
        if len(m) != 1:
            raise AnchorLost("cannot identify field '%s' of %s by type (candidates: %s)" % (role, adt["path"], m))
        out[role] = m[0]
    return out


def decided(path, pred):
    """value decided on this path for the first condition whose term satisfies pred, else None"""
    for (t, v, site) in path.conds:
        r = pred(t)
        if r:
            return v if r is True else r(v)
    return None


def calls(path, match):
    return [e for e in path.events if e["kind"] == "call" and match(e)]


def is_trait_call(e, trait, name):
    fn = e["fn"]
    return fn.get("name") == name and (fn.get("trait") == trait or fn.get("impl_trait") == trait)


def stores(path, cell=None):
    return [e for e in path.events if e["kind"] == "store" and (cell is None or e["cell"] == cell)]


def final_field(engine, path, cell, fieldname):
    return engine.read_loc(path, cell, (("field", fieldname),))


def describe_path(path, maxc=12):
    out = []
    for (t, v, site) in path.conds[:maxc]:
        out.append("%s = %s  [%s]" % (show(t), v, site))
    return out


def trace_of(path, maxe=40):
    tr = []
    for (t, v, site) in path.conds:
        tr.append({"branch": show(t), "taken": str(v), "at": site})
    for e in path.events[:maxe]:
        if e["kind"] == "call":
            tr.append({"call": e["callee"], "args": [show(a) for a in e["descs"]], "at": e.get("site")})
        elif e["kind"] == "store":
            tr.append({"store": pse.show_cell(e["cell"]) + "".join(pse.show_elem(x) for x in e["path"]),
                       "value": show(e["value"])})
        elif e["kind"] in ("panic", "assert"):
            tr.append({e["kind"]: e.get("why") or e.get("akind"), "at": e.get("site")})
    return tr


def const_f(t):
    """python float of an f32/f64 constant term, else None"""
    if is_const(t) and isinstance(t[2], tuple) and t[2][0] == "f":
        return t[2][2]
    return None


def is_none(t):
    return t[0] == "agg" and t[1] == "adt" and t[3] == "None"


def is_some(t):
    return t[0] == "agg" and t[1] == "adt" and t[3] == "Some"


def mentions(t, pred):
    for x in subterms(t):
        if pred(x):
            return True
    return False


def field_writers(facts, adt_path, crates=None):
    """{field: {function path: [kinds]}} for every non-test body that may write a field of the struct:
    direct assignment through a place mentioning the field, a mutable borrow of such a place, a call whose
    destination is such a place, or an aggregate constructing the struct ('ctor')."""
    out = {}

    def note(field, body, kind):
        out.setdefault(field, {}).setdefault(body["path"], []).append(kind)

    for bid, b in facts.bodies.items():
        crate, test = facts.body_unit[bid]
        if test or (crates and crate not in crates):
            continue
        for blk in b["blocks"]:
            for s in blk["stmts"]:
                if s["k"] != "assign":
                    continue
                for pe in s["place"]["p"]:
                    if pe["k"] == "field" and pe.get("owner") == adt_path:
                        note(pe["name"], b, "assign")
                rv = s["rv"]
                if rv["k"] in ("ref", "rawptr") and rv["mut"]:
                    for pe in rv["place"]["p"]:
                        if pe["k"] == "field" and pe.get("owner") == adt_path:
                            note(pe["name"], b, "borrow-mut")
                if rv["k"] == "agg" and rv.get("adt") == adt_path:
                    for n in rv["field_names"]:
                        note(n, b, "ctor")
            t = blk["term"]
            if t["k"] == "call":
                for pe in t["dest"]["p"]:
                    if pe["k"] == "field" and pe.get("owner") == adt_path:
                        note(pe["name"], b, "call-dest")
    return out


def call_is(t, trait, name):
    """is term t the result of calling trait::name (statically dispatched to an impl or not)?"""
    if not (isinstance(t, tuple) and t and t[0] == "call"):
        return False
    k = t[1]
    return k == trait + "::" + name or k.endswith(" as " + trait + ">::" + name)
