"""C14 - lerp laws for every numeric type (DESIGN.md section 5, C14)."""
import re
from rulelib import trace_of, calls
import pse
import terms
from pse import show

LERP = "mina_core::interpolation::Lerp"
INT_TYPES = {"i8", "i16", "i32", "i64", "u8", "u16", "u32", "u64", "usize"}
A, B, X = ("deref", ("param", 1)), ("deref", ("param", 2)), ("param", 3)


def lerp_impls(F):
    return F.find(crate="mina_core", name="lerp", impl_trait=LERP, test=False)


def summary(ctx, F, body, inline_f32=True):
    def inl(fn, b):
        # the integer impls go through the f32 impl: inline that one, and the crate's own private helpers (a shared
        # formula or conversion function), but no other Lerp impl
        if b.get("impl_trait") == LERP:
            return inline_f32 and b.get("impl_self") == "f32"
        return F.body_unit[b["id"]][0] == "mina_core" and not b.get("impl_trait")
    eng = pse.Engine(F, inline=inl)
    ps = eng.run(body)
    ctx.count_paths(ps, body)
    return ps


def main_path(ctx, rule, inst, body, ps):
    """The path that carries the interpolation formula.  Further return paths are accepted only as exact shortcuts: a path
    taken under `x == 0.0` that returns a, under `x == 1.0` that returns b, or under `a == b` that returns a (or b) - the
    cases in which the formula yields that very value.  Any other guard (an inequality, a tolerance) changes the function
    on a set of inputs and is reported.  Returns the main path, or None when the shape was reported."""
    rets = [p for p in ps if p.outcome == "return"]
    if len(rets) == 1:
        return rets[0]

    def special(t, v):
        """('x0' | 'x1' | 'same', holds) for an exact test, else None"""
        if t[0] == "bin" and t[1] in ("Eq", "Ne") and v in (0, 1):
            holds = (v == 1) == (t[1] == "Eq")
            pair = (t[2], t[3])
            for a_, b_ in (pair, pair[::-1]):
                if a_ == X and pse.is_const(b_) and isinstance(b_[2], tuple) and b_[2][0] == "f" and b_[2][2] in (0.0, 1.0):
                    return ("x0" if b_[2][2] == 0.0 else "x1", holds)
            if set(pair) == {A, B}:
                return ("same", holds)
        return None
    mains, bad = [], []
    for p in rets:
        # the checked conversion's own Some / None decision (`expect`) is part of the formula, not a guard
        conds = [(t, v, s_) for (t, v, s_) in p.conds if not (t[0] == "discr" and t[1][0] == "call")]
        facts = [special(t, v) for (t, v, s_) in conds]
        if any(f is None for f in facts):
            bad.append("guard %s" % [show(t) for (t, v, s_) in conds if special(t, v) is None])
            continue
        held = [f[0] for f in facts if f[1]]
        if not held:
            mains.append(p)
            continue
        want = {"x0": (A,), "x1": (B,), "same": (A, B)}[held[0]]
        got = p.ret
        if got[0] == "agg" and got[3] == "Some":
            got = got[4][0][1]
        if got not in want:
            bad.append("under %s the shortcut returns %s" % (held[0], show(p.ret)))
    ok = len(mains) == 1 and not bad
    if not ok:
        ctx.ob(rule, inst, False,
               "besides its formula a lerp may only short-cut the exact cases x == 0 (-> a), x == 1 (-> b), a == b (-> a); "
               "found %d formula path(s), %s" % (len(mains), bad), body["span"], what="lerp-shape")
        return None
    return mains[0]


def lerp_formula(ctx, rule, inst, F, b, _cache={}):
    """the value of the impl's formula path as a term over (a, b, x); a delegation to the f32 impl is replaced by that impl's
    own formula (the f32 impl's shortcuts are judged where they are written, not once more in every integer impl)"""
    ps = summary(ctx, F, b, inline_f32=False)
    mp = main_path(ctx, rule, inst, b, ps)
    if mp is None:
        return None
    r = mp.ret
    delegated = [x for x in pse.subterms(r) if x[0] == "call" and x[1] == "<f32 as %s>::lerp" % LERP and len(x[2]) == 3]
    if delegated and b.get("impl_self") != "f32":
        b32 = F.one(crate="mina_core", name="lerp", impl_trait=LERP, impl_self="f32")
        f32r = lerp_formula(ctx, rule, inst + "/via-f32", F, b32)
        if f32r is None:
            return None
        strip = lambda a_: a_[1] if a_[0] == "&" else a_
        for c in delegated:
            r = terms.subst(r, {c: terms.subst(f32r, {A: strip(c[2][0]), B: strip(c[2][1]), X: c[2][2]})})
    return r


def value_of(p):
    """the value a return path yields, through Option::expect's Some payload"""
    return p.ret


def rule_endpoints(ctx, F, rule="R1"):
    """x = 0 -> a and x = 1 -> b under exact-IEEE rewriting only (f32, f64, nine integer impls)"""
    n = 0
    for b in lerp_impls(F):
        ty = b["impl_self"]
        if ty not in INT_TYPES and ty not in ("f32", "f64"):
            continue
        n += 1
        r = lerp_formula(ctx, rule, "endpoints/%s" % ty, F, b)
        if r is None:
            continue
        for xv, want, nm in ((0.0, A, "0"), (1.0, B, "1")):
            t = terms.subst(r, {X: terms.F(xv)})
            e = terms.exact(t)
            # integer impls: payload of the checked conversion
            if e[0] == "field" and e[2] == "0" and e[1][0] == "variant" and e[1][1][0] == "agg":
                e = terms.exact(e)
            got = e
            if got[0] == "agg" and got[3] == "Some":
                got = got[4][0][1]
            ctx.ob(rule, "endpoints/%s/x=%s" % (ty, nm), got == want,
                   "lerp(a,b,%s) must reduce to %s using bit-exact identities only (the overflow-free form "
                   "a*(1-x)+b*x does; a+x*(b-a) does not); it reduces to %s" % (nm, "a" if xv == 0 else "b", show(got)),
                   b["span"], what="endpoint-not-exact")
    ctx.floor(rule, "scalar Lerp impls", n, 11)


def rule_affine(ctx, F, rule="R2"):
    for ty in ("f32", "f64"):
        b = F.one(crate="mina_core", name="lerp", impl_trait=LERP, impl_self=ty)
        fr = lerp_formula(ctx, rule, "affine/%s" % ty, F, b)
        if fr is None:
            continue
        try:
            p = terms.poly(fr)
        except terms.NotPoly:
            ctx.ob(rule, "affine/%s" % ty, False, "lerp is not a polynomial: %s" % show(fr), b["span"],
                   what="not-polynomial")
            continue
        pa, pb = terms.p_atom(A), terms.p_atom(B)
        deg = terms.p_degree(p, X)
        p0 = terms.p_subst(p, X, terms.p_const(0))
        p1 = terms.p_subst(p, X, terms.p_const(1))
        paa = terms.p_subst(p, B, pa)
        ok = deg <= 1 and p0 == pa and p1 == pb and paa == pa
        ctx.ob(rule, "affine/%s" % ty, ok,
               "as a polynomial over Q the lerp must be affine in x with p(a,b,0)=a, p(a,b,1)=b, p(a,a,x)=a; "
               "p = %s (degree %d in x)" % (terms.p_show(p), deg), b["span"], what="not-affine-interpolation")
        atoms = {a for m in p for a, e in m}
        ctx.ob(rule, "affine/%s/only-a-b-x" % ty, atoms <= {A, B, X},
               "the lerp depends on nothing but (a, b, x): %s" % [show(a) for a in atoms - {A, B, X}], b["span"],
               what="extra-inputs")


def rule_integers(ctx, F, rule="R3"):
    have = set()
    for b in lerp_impls(F):
        ty = b["impl_self"]
        if not re.fullmatch(r"[iu](8|16|32|64|128|size)", ty):
            continue
        have.add(ty)
        r = lerp_formula(ctx, rule, "integer/%s" % ty, F, b)
        if r is None:
            continue
        ok = True
        detail = ""
        if ok:
            # (from_f32(round(V)) as Some).0  with V the f32 interpolation of (a as f32, b as f32, x)
            conv = r[1][1] if r[0] == "field" and r[1][0] == "variant" else None
            ok = conv is not None and conv[0] == "call" and \
                (conv[1].endswith("FromPrimitive>::from_f32") or conv[1].endswith("FromPrimitive::from_f32"))
            detail = show(r)
            if ok:
                rnd = conv[2][0]
                ok = rnd[0] == "call" and rnd[1].endswith("f32>::round")
                if ok:
                    try:
                        pv = terms.poly(rnd[2][0])      # casts are the identity over Q
                        atoms = {a for m in pv for a, e in m}
                        ok = atoms <= {A, B, X} and terms.p_degree(pv, X) <= 1 and \
                            terms.p_subst(pv, X, terms.p_const(0)) == terms.p_atom(A) and \
                            terms.p_subst(pv, X, terms.p_const(1)) == terms.p_atom(B) and \
                            _only_widened(rnd[2][0])
                    except terms.NotPoly:
                        ok = False
        ctx.ob(rule, "integer/%s" % ty, ok,
               "integer lerp must be checked_conversion(round(f32_lerp(a as f32, b as f32, x))) - round to nearest, "
               "no arithmetic in the narrow type, no `as` truncation; it is %s" % detail, b["span"],
               what="integer-lerp-shape")
    ctx.ob(rule, "integer/impl-set", have == INT_TYPES,
           "integer Lerp impls must exist for exactly %s; found %s" % (sorted(INT_TYPES), sorted(have)),
           what="integer-impl-set")


def _only_widened(t, parent=None):
    """every use of the integer operands a, b is `a as f32` / `b as f32`: no arithmetic happens in the narrow type"""
    if t in (A, B):
        return parent is not None and parent[0] == "cast" and parent[1] == "IntToFloat"
    if not isinstance(t, tuple):
        return True
    return all(_only_widened(x, t) for x in t if isinstance(x, tuple))


COMP = ["x", "y", "z", "w"]


def rule_glam(ctx, F, rule="R4", impls=None, prefix="glam::", floors=True):
    nvec = nquat = 0
    for b in (impls if impls is not None else lerp_impls(F)):
        ty = b["impl_self"]
        if not ty.startswith(prefix):
            continue
        short = ty.split("::")[-1]
        eng = pse.Engine(F, inline=lambda fn, bb: False)
        ps = [p for p in eng.run(b) if p.outcome == "return"]
        ctx.count_paths(ps, b)
        if len(ps) != 1:
            ctx.ob(rule, "glam/%s" % short, False, "unexpected shape", b["span"], what="lerp-shape")
            continue
        r = ps[0].ret
        if "Quat" in short:
            nquat += 1
            # DQuat: x widened to f64 (`x as f64`, `f64::from(x)` - exact either way)
            okx = lambda t: t == X if short == "Quat" else (t[0] == "cast" and t[2] == X and str(t[3]) == "f64")
            ok = r[0] == "call" and r[1].endswith("::lerp") and r[1].startswith("glam::") and len(r[2]) == 3 and \
                r[2][:2] == (A, B) and okx(r[2][2])
            ctx.ob(rule, "glam/%s" % short, ok, "%s must delegate to glam's lerp(self, other, x) in that order; is %s"
                   % (short, show(r)), b["span"], what="quat-delegation-wrong")
            continue
        nvec += 1
        m = re.search(r"Vec(\d)", short)
        arity = int(m.group(1)) if m else None
        ok = r[0] == "call" and r[1].endswith("::new") and arity is not None and len(r[2]) == arity
        bad = []
        if ok:
            for i, a in enumerate(r[2]):
                c = COMP[i]
                good = a[0] == "call" and a[1].endswith(" as %s>::lerp" % LERP) and \
                    a[2] == (("&", ("field", A, c)), ("&", ("field", B, c)), X)
                if not good:
                    bad.append("component %s: %s" % (c, show(a)))
        ctx.ob(rule, "glam/%s" % short, ok and not bad,
               "%s must interpolate component-wise: new(self.c.lerp(&b.c, t), ...) with the same component on both "
               "sides, in constructor order, t unchanged; %s" % (short, bad or show(r)), b["span"],
               what="component-mismatch")
    if floors:
        ctx.floor(rule, "glam vector impls", nvec, 19)
        ctx.floor(rule, "glam quaternion impls", nquat, 2)


def check(ctx):
    F = ctx.facts
    rule_endpoints(ctx, F, "R1")
    rule_affine(ctx, F, "R2")
    rule_integers(ctx, F, "R3")
    rule_glam(ctx, F, "R4")
    ctx.notes.append("not decided: rounding behaviour (between / monotone 'up to float rounding'), full-range "
                     "no-panic of the 32/64-bit integer impls (whether a(1-x)+bx can round past the type's maximum is a "
                     "numeric question)")
    ctx.assumptions += ["a, b exactly representable in f32 (the property's premise)",
                        "num_traits::FromPrimitive::from_f32 is a checked conversion; f32::round rounds half away from zero"]


def controls(ctx, F):
    impls = F.find(crate="witness_controls", name="lerp", impl_trait=LERP)
    rule_glam(ctx, F, "R4", impls=impls, prefix="witness_controls::lerp::CtlVec", floors=False)
    # the non-exact scalar form a + x (b - a): endpoint rule must fire
    b = F.one(crate="witness_controls", name="ctl_lerp_inexact")
    ps = [p for p in pse.Engine(F).run(b) if p.outcome == "return"]
    r = ps[0].ret
    e1 = terms.exact(terms.subst(r, {X: terms.F(1.0)}))
    ctx.ob("R1", "control/inexact", e1 == B, "control reduces to %s" % show(e1), what="endpoint-not-exact")
    return [("R4", "component-mismatch", "vector lerp with mismatched components"),
            ("R1", "endpoint-not-exact", "scalar lerp in the form a + x (b - a)")]
