"""C12 - a merged timeline is an ordered overlay with aggregate timing (DESIGN.md section 5, C12)."""
from rulelib import trace_of, calls, is_trait_call, mentions
import pse
from pse import show, subterms

MT = "mina_core::timeline::MergedTimeline"
TL = "mina_core::timeline::Timeline"
REPEAT = "mina_core::timeline::Repeat"

# order-preserving traversal constructors (Appendix C); anything else (rev, skip, take, filter, ...) is not
ORDERED_ITER = {
    "core::slice::<impl [T]>::iter": "slice iter visits elements front to back",
    "core::slice::<impl [T]>::iter_mut": "slice iter_mut visits elements front to back",
    "<&'a alloc::vec::Vec<T, A> as core::iter::traits::collect::IntoIterator>::into_iter": "= slice iter",
    "<&'a mut alloc::vec::Vec<T, A> as core::iter::traits::collect::IntoIterator>::into_iter": "= slice iter_mut",
    "<I as core::iter::traits::collect::IntoIterator>::into_iter": "identity on an iterator",
}


def ordered_source(t, vec_term):
    """t is a chain of ORDERED_ITER calls over a reference to vec_term"""
    while t[0] == "call" and t[1] in ORDERED_ITER:
        a = t[2][0]
        if a[0] in ("&", "&mut") and a[1] == vec_term:
            return True
        t = a
    return False


def range_source(t, vec_term):
    """t is the index range 0..vec.len() (every index once, ascending)"""
    while t[0] == "call" and t[1] == "<I as core::iter::traits::collect::IntoIterator>::into_iter":
        t = t[2][0]
    if t[0] == "agg" and t[1] == "adt" and t[2] == "core::ops::range::Range":
        f = dict(t[4])
        return f.get("start") == ("const", "usize", 0) and f.get("end") == ("len", vec_term)
    return False


def indexed_elem(d, vec_term, item):
    """d is a reference to vec[item] (Index::index / IndexMut::index_mut on the component vector)"""
    if d[0] not in ("&", "&mut") or d[1][0] != "deref":
        return False
    c = d[1][1]
    return c[0] == "call" and c[1].split("::")[-1] in ("index", "index_mut") and "Vec" in c[1] and \
        c[2][0] in (("&", vec_term), ("&mut", vec_term)) and c[2][1] == item


def mt_method(F, name, adt=MT):
    return F.one(name=name, impl_self_adt=adt, impl_trait=TL)


def timelines_field(F, adt=MT):
    a = F.adt(adt)
    fs = [f for f in a["variants"][0]["fields"] if f["ty"].startswith("alloc::vec::Vec<")]
    if len(fs) != 1:
        from facts import AnchorLost
        raise AnchorLost("component vector of %s" % adt)
    return fs[0]["name"]


def check_loop_method(ctx, F, rule, name, mutable, adt=MT):
    body = mt_method(F, name, adt)
    tf = timelines_field(F, adt)
    vec = ("field", ("deref", ("param", 1)), tf)
    eng = pse.Engine(F, inline=lambda fn, b: False)
    paths = eng.run(body)
    ctx.count_paths(paths, body)
    inst = body["path"]
    n_iter = 0
    for p in paths:
        nx = calls(p, lambda e: e["fn"]["name"] == "next" and e["fn"].get("trait", "").endswith("Iterator"))
        comp = calls(p, lambda e: is_trait_call(e, TL, name))
        # an effect = a call that can write outside this function's own locals: it receives a mutable reference
        # into caller-visible memory, or the caller's target itself
        def _escapes(e):
            for a in e["args"]:
                if a == ("param", 2):
                    return True
                if a[0] == "ref" and a[3] and a[1][0] == "M":
                    return True
            return False
        others = [e for e in calls(p, lambda e: True) if e not in nx and e not in comp
                  and e["callee"] not in ORDERED_ITER and _escapes(e)
                  and not (e["fn"].get("name") in ("index", "index_mut") and "Vec" in e["callee"])]
        ctx.ob(rule, inst + "/no-other-effects", not others and not [e for e in p.events if e["kind"] == "store"],
               "merged %s must have no effect other than its components' %s; found %s"
               % (name, name, [e["callee"] for e in others]), body["span"], trace_of(p), what="other-effects")
        took = None
        for (t, v, site) in p.conds:
            if t[0] == "discr" and t[1][0] == "call" and "Iterator>::next" in t[1][1] or \
                    (t[0] == "discr" and t[1][0] == "call" and t[1][1].endswith("Iterator::next")) or \
                    (t[0] == "discr" and nx and t[1] == nx[0]["result"]):
                took = v
        if took == 1:
            n_iter += 1
            ok = p.outcome == "backedge" and len(comp) == 1 and len(nx) == 1
            detail = ""
            if ok:
                lv = nx[0]["descs"][0]
                src = lv[1][3] if lv[0] == "&mut" and lv[1][0] == "loop" and len(lv[1]) > 3 else None
                by_index = src is not None and range_source(src, vec)
                ok_src = src is not None and (ordered_source(src, vec) or by_index)
                ctx.ob(rule, inst + "/ordered-traversal", ok_src,
                       "components must be visited by an order-preserving traversal of self.%s (idiom table); "
                       "iterator is %s" % (tf, show(src) if src else show(lv)), body["span"], trace_of(p),
                       what="traversal-not-ordered")
                a = comp[0]["args"]
                d = comp[0]["descs"]
                elem = ("field", ("variant", nx[0]["result"], "Some"), "0")
                ok_elem = d[0] in (("&", ("deref", elem)), ("&mut", ("deref", elem)))
                if by_index:
                    ok_elem = indexed_elem(d[0], vec, elem)
                if mutable:
                    ok_args = ok_elem and d[1] == ("&", ("deref", ("param", 2)))
                else:
                    ok_args = ok_elem and d[1] == ("&mut", ("deref", ("param", 2))) and d[2] == ("param", 3)
                ctx.ob(rule, inst + "/delegates-unchanged", ok_args,
                       "each component must receive the caller's arguments unchanged: %s(component, %s); got %s"
                       % (name, "values" if mutable else "values, time", [show(x) for x in d]), body["span"],
                       trace_of(p), what="arguments-changed")
            else:
                ctx.ob(rule, inst + "/every-component", False,
                       "every iteration must apply %s to the component exactly once and continue with the next "
                       "(outcome %s, %d component call(s))" % (name, p.outcome, len(comp)), body["span"],
                       trace_of(p), what="component-skipped")
        else:
            ctx.ob(rule, inst + "/exit-clean", not comp and p.outcome == "return",
                   "outside the loop body nothing is evaluated", body["span"], trace_of(p), what="extra-evaluation")
    if n_iter == 0:
        # idiom: self.timelines.iter().for_each(|t| t.<name>(values, time))
        n_iter = check_for_each(ctx, F, rule, name, mutable, body, paths, vec, tf)
    ctx.floor(rule, inst + " loop-body paths", n_iter, 1)


def check_for_each(ctx, F, rule, name, mutable, body, paths, vec, tf):
    inst = body["path"]
    n = 0
    for p in paths:
        fe = calls(p, lambda e: e["fn"]["name"] == "for_each" and e["fn"].get("trait", "").endswith("Iterator"))
        if len(fe) != 1:
            continue
        src, clo = fe[0]["descs"][0], fe[0]["descs"][1]
        ok_src = ordered_source(src, vec)
        ctx.ob(rule, inst + "/ordered-traversal", ok_src,
               "components must be visited by an order-preserving traversal of self.%s; for_each ranges over %s"
               % (tf, show(src)), body["span"], trace_of(p), what="traversal-not-ordered")
        cb = F.bodies.get(clo[2]) if clo[0] == "agg" and clo[1] == "closure" else None
        if cb is None:
            continue
        eng = pse.Engine(F, inline=lambda fn, b: False)
        cps = eng.run(cb)
        ctx.count_paths(cps, cb)
        caps = [v for _, v in clo[4]]
        for q in cps:
            comp = calls(q, lambda e: is_trait_call(e, TL, name))
            ok = q.outcome == "return" and len(comp) == 1
            if ok:
                n += 1
                d = comp[0]["descs"]
                # captured environment fields must be the caller's arguments, passed through unchanged
                env = ("deref", ("param", 1))
                def cap(i):
                    return ("field", env, str(i))
                elem_ok = d[0] in (("&", ("deref", ("param", 2))), ("&mut", ("deref", ("param", 2))))
                vals = [x for x in d[1:]]
                want_vals = [("ref", ("M", ("param", 2)), (), True)] if False else None
                # resolve captures: capture k holds a reference to / copy of a caller argument
                def resolves_to(x, target):
                    # strip reference / dereference wrappers down to a captured-environment field
                    while isinstance(x, tuple) and x and x[0] in ("deref", "&", "&mut"):
                        x = x[1]
                    for i, cv in enumerate(caps):
                        if x == cap(i):
                            if cv[0] == "ref" and cv[1] == ("M", target) and cv[2] == ():
                                return True      # a reborrow of the caller's reference
                            k = 0
                            while cv[0] == "ref" and k < 4:
                                cv = eng.read_loc(p, cv[1], cv[2])
                                k += 1
                            return cv == target
                    return False
                if mutable:
                    ok = elem_ok and resolves_to(d[1], ("param", 2))
                else:
                    ok = elem_ok and resolves_to(d[1], ("param", 2)) and resolves_to(d[2], ("param", 3))
            ctx.ob(rule, inst + "/delegates-unchanged", ok,
                   "each component must receive the caller's arguments unchanged (for_each closure): %s"
                   % [[show(x)[:80] for x in c["descs"]] for c in comp], cb["span"], trace_of(q), what="arguments-changed")
    return n


def closure_paths(ctx, F, term):
    """paths of a closure literal or of a workspace fn item; the first explicit parameter is term-dependent (FIRST)"""
    cb = None
    if term and term[0] == "agg" and term[1] == "closure":
        cb = F.bodies.get(term[2])
    elif term and term[0] == "fn":
        cb = F.bodies.get(term[1])
    if cb is None:
        return None, None
    eng = pse.Engine(F, inline=lambda fn, b: False)
    ps = eng.run(cb)
    ctx.count_paths(ps, cb)
    return cb, ps


def first_param(term):
    return 1 if term and term[0] == "fn" else 2


def natural_comparator(ctx, F, rule, inst, term, site):
    """comparator closure = natural ascending order of (a, b): partial_cmp(a, b).unwrap_or(_) or total_cmp(a, b)"""
    cb, ps = closure_paths(ctx, F, term)
    if cb is None:
        ctx.ob(rule, inst + "/comparator", False, "comparator is neither a closure literal nor a workspace function: %s"
               % show(term), site, what="comparator-unknown")
        return
    ok = True
    seen = None
    for p in ps:
        cs = calls(p, lambda e: e["fn"]["name"] in ("partial_cmp", "total_cmp", "cmp"))
        if len(cs) != 1:
            ok = False
            continue
        d = cs[0]["descs"]
        k = first_param(term)
        a, b = ("deref", ("param", k)), ("deref", ("param", k + 1))
        seen = [show(x) for x in d]
        if tuple(d) not in ((("&", a), ("&", b)), (("&", ("deref", a)), ("&", ("deref", b))), (a, b)):
            ok = False
    ctx.ob(rule, inst + "/comparator", ok and bool(ps),
           "fold comparator must compare (a, b) in natural ascending order; compares %s" % seen, cb["span"],
           what="comparator-not-natural")


def mapper_is(ctx, F, rule, inst, term, method, site):
    if term and term[0] == "fn" and term[1] == TL + "::" + method:
        # the trait method itself used as the mapper (`.map(T::%s)`)
        ctx.ob(rule, inst + "/mapper", True, "maps with the path Timeline::%s" % method, site)
        return
    cb, ps = closure_paths(ctx, F, term)
    if cb is None:
        ctx.ob(rule, inst + "/mapper", False, "mapper is neither a closure literal nor Timeline::%s: %s" % (method, show(term)),
               site, what="mapper-unknown")
        return
    ok = len(ps) == 1
    got = None
    if ok:
        r = ps[0].ret
        got = show(r)
        k = first_param(term)
        ok = r[0] == "call" and r[1] == TL + "::" + method and r[2] in ((("&", ("deref", ("param", k))),), (("param", k),))
    ctx.ob(rule, inst + "/mapper", ok,
           "aggregate %s must map every component with Timeline::%s; maps with %s" % (method, method, got),
           cb["span"], what="mapper-wrong-getter")


def check_fold(ctx, F, rule, name, fold, adt=MT):
    """delay -> min_by, duration -> max_by over map(iter(&timelines), |t| t.<name>())"""
    body = mt_method(F, name, adt)
    tf = timelines_field(F, adt)
    vec = ("field", ("deref", ("param", 1)), tf)
    eng = pse.Engine(F, inline=lambda fn, b: False)
    paths = eng.run(body)
    ctx.count_paths(paths, body)
    inst = body["path"]
    n = 0
    for p in paths:
        if p.outcome != "return":
            continue
        r = p.ret
        folds = [x for x in subterms(r) if x[0] == "call" and x[1].startswith("core::iter::traits::iterator::Iterator::")
                 and x[1].split("::")[-1] in ("min_by", "max_by", "max", "min", "fold", "reduce", "min_by_key", "max_by_key")]
        if not folds:
            # the empty-list default: 0.0 for delay / duration, Repeat::None for repeat (a finite, neutral value - not the
            # seed of a fold)
            if pse.is_const(r) or pse.unit_variant(r) is not None:
                okd = (pse.is_const(r) and isinstance(r[2], tuple) and r[2][0] == "f" and r[2][2] == 0.0) or \
                    (pse.unit_variant(r) is not None and pse.unit_variant(r)[1] == "None")
                ctx.ob(rule, inst + "/empty-default", okd,
                       "a merged timeline without components reports %s = 0.0 (Repeat::None for repeat); it reports %s"
                       % (name, show(r)), body["span"], trace_of(p), what="empty-default-wrong")
            continue
        n += 1
        f = folds[0]
        kind = f[1].split("::")[-1]
        ok = kind == fold
        ctx.ob(rule, inst + "/fold-kind", ok,
               "merged %s must fold its components with %s; uses %s" % (name, fold, kind), body["span"], trace_of(p),
               what="fold-kind-wrong")
        src = f[2][0]
        okm = src[0] == "call" and src[1].endswith("Iterator::map") and ordered_source(src[2][0], vec)
        ctx.ob(rule, inst + "/all-components", okm,
               "the fold must range over all components (map over iter(&self.%s)); ranges over %s" % (tf, show(src)),
               body["span"], trace_of(p), what="fold-not-over-all-components")
        if okm:
            mapper_is(ctx, F, rule, inst, src[2][1], name, body["span"])
        if kind in ("min_by", "max_by") and len(f[2]) > 1:
            natural_comparator(ctx, F, rule, inst, f[2][1], body["span"])
        # result = the fold's payload, unchanged
        okr = r == ("field", ("variant", f, "Some"), "0") or r == f
        ctx.ob(rule, inst + "/result-is-fold", okr, "the result must be the folded value itself; it is %s" % show(r),
               body["span"], trace_of(p), what="result-not-fold")
    if n == 0:
        # the same fold written as an explicit loop (possibly in a private helper taking the getter and the selection as
        # closures): recognised row by row
        n = _fold_loop_form(ctx, F, rule, name, fold, body, vec, tf)
    if n == 0:
        # ... with a plain running value (seeded with the first component or with the order's least / greatest element), a
        # direct comparison, or `Iterator::fold` with a closure: each step is judged by what it selects under each of the
        # three possible orderings of (running value, candidate)
        n = _fold_select_form(ctx, F, rule, name, fold, body, vec, tf)
    ctx.floor(rule, inst + " fold paths", n, 1)


ORDERING = {255: "Less", -1: "Less", 0: "Equal", 1: "Greater"}


def _fold_loop_form(ctx, F, rule, name, fold, body, vec, tf):
    """acc = None; for each component c in order { v = c.<name>(); acc = Some(match acc { None => v, Some(cur) => pick }) }
    with pick = v iff compare(cur, v) == Greater (minimum, first of equals kept) for min_by, and pick = cur iff
    compare(cur, v) == Greater (maximum, last of equals kept) for max_by / max; an incomparable pair counts as Less (the
    comparator's `unwrap_or(Less)`).  Every iteration row is checked; helpers and closures of the crate are inlined."""
    inst = body["path"]
    eng = pse.Engine(F, inline=lambda fn, bb: F.body_unit[bb["id"]][0] == F.body_unit[body["id"]][0]
                     and bb.get("impl_trait") not in (TL, "core::cmp::Ord", "core::cmp::PartialOrd"), inline_loops=True)
    try:
        paths = eng.run(body)
    except pse.Budget:
        return 0
    ctx.count_paths(paths, body)
    rets = [p for p in paths if p.outcome == "return"]
    accs = {p.ret[1][1] for p in rets if p.ret[0] == "field" and p.ret[1][0] == "variant" and p.ret[1][2] == "Some"
            and p.ret[1][1][0] == "loop"}
    if len(accs) != 1:
        return 0
    ACC = next(iter(accs))
    hdr, l = ACC[1], ACC[2][1]
    ok_init = ACC[3][0] == "agg" and ACC[3][3] == "None"
    ctx.ob(rule, inst + "/fold-starts-empty", ok_init, "the running value must start as None; it starts as %s" % show(ACC[3]),
           body["span"], what="fold-init-wrong")
    cur = ("field", ("variant", ACC, "Some"), "0")
    n = 0
    for p in paths:
        nx = [e for e in p.events if e["kind"] == "call" and e["fn"].get("name") == "next" and e["descs"]
              and e["descs"][0][0] == "&mut" and e["descs"][0][1][0] == "loop" and e["descs"][0][1][1] == hdr]
        if p.outcome != "backedge" or not nx:
            continue
        took = [v for (t, v, s) in p.conds if t[0] == "discr" and t[1] == nx[0]["result"]]
        if took != [1]:
            continue
        lab = inst + "/fold-row[%s]" % ",".join(str(v) for (_, v, _) in p.conds[1:])
        item = ("field", ("variant", nx[0]["result"], "Some"), "0")
        src = nx[0]["descs"][0][1][3]
        by_index = range_source(src, vec)
        ctx.ob(rule, lab + "/ordered-traversal", by_index or ordered_source(src, vec),
               "the fold must visit every component of self.%s in order; iterator is %s" % (tf, show(src)[:200]), body["span"],
               trace_of(p), what="fold-not-over-all-components")
        got = [e for e in p.events if e["kind"] == "call" and is_trait_call(e, TL, name)]
        ok_get = len(got) == 1 and (indexed_elem(got[0]["descs"][0], vec, item) if by_index
                                    else got[0]["descs"][0] in (("&", ("deref", item)),))
        ctx.ob(rule, lab + "/reads-this-component", ok_get,
               "each step must read %s() of the component being visited, once" % name, body["span"], trace_of(p),
               what="mapper-wrong-getter")
        if not ok_get:
            continue
        cand = got[0]["result"]
        fin = [v for (k, v) in p.store.items() if k[0] == "L" and k[2] == l and
               (v == ACC or (isinstance(v, tuple) and v and v[0] == "agg" and v[3] == "Some" and v[4][0][1] in (cur, cand)))]
        had = next((v for (t, v, s) in p.conds if t == ("discr", ACC, pse.OPT_VARIANTS) or (t[0] == "discr" and t[1] == ACC)), None)
        if len(fin) != 1 or had not in (0, 1):
            ctx.ob(rule, lab + "/step-shape", False, "the running value of this step is not recognisable", body["span"],
                   trace_of(p), what="fold-step-unknown")
            continue
        new = fin[0]
        new = cur if new == ACC else new[4][0][1]
        if had == 0:
            okp = new == cand
            want = "the first component's value"
        else:
            cmps = [e for e in p.events if e["kind"] == "call" and e["fn"].get("name") in ("partial_cmp", "total_cmp", "cmp")]
            okp = len(cmps) == 1 and tuple(x[1] if x[0] == "&" else x for x in cmps[0]["descs"]) == (cur, cand)
            order = None
            if okp:
                c = cmps[0]["result"]
                is_opt = cmps[0]["fn"].get("name") == "partial_cmp"
                payload = ("field", ("variant", c, "Some"), "0") if is_opt else c
                some = next((v for (t, v, s) in p.conds if t[0] == "discr" and t[1] == c), None) if is_opt else 1
                if some == 0:
                    order = "Less"          # incomparable: unwrap_or(Ordering::Less)
                else:
                    for (t, v, s) in p.conds:
                        if t[0] == "discr" and t[1] == payload and not isinstance(v, tuple):
                            order = ORDERING.get(v)
                        if t[0] == "discr" and t[1] == payload and isinstance(v, tuple) and v[0] == "not":
                            rest = {255, 0, 1} - {x if x >= 0 else 255 for x in v[1]}
                            if len(rest) == 1:
                                order = ORDERING[next(iter(rest))]
                            elif rest == {255, 0} or rest == {0, 255}:
                                order = "not-Greater"
                        if t[0] == "bin" and t[1] in ("Eq", "Ne") and t[2] == payload and pse.unit_variant(t[3]) and v in (0, 1):
                            isv = (v == 1) == (t[1] == "Eq")
                            nm = pse.unit_variant(t[3])[1]
                            if isv:
                                order = nm
                            elif nm == "Greater":
                                order = "not-Greater"
            greater = order == "Greater"
            decided = order in ("Less", "Equal", "Greater", "not-Greater")
            if fold == "min_by":
                okp = okp and decided and new == (cand if greater else cur)
                want = "the candidate iff compare(current, candidate) is Greater (minimum, first of equals)"
            else:
                okp = okp and decided and new == (cur if greater else cand)
                want = "the current value iff compare(current, candidate) is Greater (maximum, last of equals)"
        ctx.ob(rule, lab + "/selects", okp, "merged %s: the running value must become %s; it becomes %s"
               % (name, want, show(new)[:160]), body["span"], trace_of(p), what="fold-kind-wrong")
        n += 1
    return n


def _strip_ref(d):
    return d[1] if d[0] in ("&", "&mut") else d


def _step_selects(p_conds, events, cur, cand, new, fold):
    """A fold step that went from `cur` to `new` after seeing `cand`: for each ordering of (cur, cand) under which the step's
    decisions can all hold, the value kept must be the smaller one (min_by) / the greater one (max_by, max); equal values may
    keep either.  -> (ok, detail).  A decision about cur or cand that is not a comparison of the two is not understood and
    fails the step (fail closed)."""
    cmps = {}
    for e in events:
        if e["kind"] == "call" and e["fn"].get("name") in ("partial_cmp", "total_cmp", "cmp") and len(e["descs"]) == 2:
            a, b_ = _strip_ref(e["descs"][0]), _strip_ref(e["descs"][1])
            if (a, b_) == (cur, cand):
                cmps[e["result"]] = (False, e["fn"]["name"])
            elif (a, b_) == (cand, cur):
                cmps[e["result"]] = (True, e["fn"]["name"])
    ORD = {"lt": "Less", "eq": "Equal", "gt": "Greater"}
    SWAP = {"lt": "gt", "eq": "eq", "gt": "lt"}

    def truth(t, v, o):
        """does decision (t == v) hold when cur <o> cand?  True / False / None (not about the pair) / 'unknown'"""
        if t[0] == "bin" and t[1] in ("Lt", "Le", "Gt", "Ge", "Eq", "Ne") and {t[2], t[3]} == {cur, cand}:
            oo = o if (t[2], t[3]) == (cur, cand) else SWAP[o]
            val = {"Lt": oo == "lt", "Le": oo in ("lt", "eq"), "Gt": oo == "gt", "Ge": oo in ("gt", "eq"),
                   "Eq": oo == "eq", "Ne": oo != "eq"}[t[1]]
            return val == bool(v)
        for c, (swapped, kind) in cmps.items():
            ordering = ORD[SWAP[o] if swapped else o]
            payload = ("field", ("variant", c, "Some"), "0") if kind == "partial_cmp" else c
            if kind == "partial_cmp" and t == ("discr", c, pse.OPT_VARIANTS) or (kind == "partial_cmp" and t[0] == "discr" and t[1] == c):
                return v == 1           # comparable values: partial_cmp is Some
            if t[0] == "discr" and t[1] == payload:
                if isinstance(v, tuple) and v[0] == "not":
                    return ordering not in {ORDERING.get(x if x >= 0 else 255) for x in v[1]}
                return ORDERING.get(v) == ordering
            if t[0] == "bin" and t[1] in ("Eq", "Ne") and payload in (t[2], t[3]) and v in (0, 1):
                other = t[3] if t[2] == payload else t[2]
                uv = pse.unit_variant(other)
                if uv is None:
                    return "unknown"
                return ((uv[1] == ordering) == (t[1] == "Eq")) == bool(v)
        if pse.contains(t, cur) or pse.contains(t, cand):
            # the Some / None decisions of the iterator and of an optional running value are handled by the caller
            if t[0] == "discr" and (t[1] == cur or pse.contains(cand, t[1]) or pse.contains(cur, t[1])):
                return None
            return "unknown"
        return None

    covered = set()
    for o in ("lt", "eq", "gt"):
        feas = True
        for (t, v, s_) in p_conds:
            tv = truth(t, v, o)
            if tv == "unknown":
                return False, "a decision of the step is not a comparison of the running value and the candidate: %s" % show(t)[:160]
            if tv is False:
                feas = False
                break
        if not feas:
            continue
        covered.add(o)
        keep_cur = (o == "lt") if fold == "min_by" else (o == "gt")
        if o != "eq" and new != (cur if keep_cur else cand):
            return False, "with running value %s candidate the step keeps %s" % (
                {"lt": "<", "gt": ">"}[o], "the running value" if new == cur else "the candidate" if new == cand else show(new)[:80])
        if o == "eq" and new not in (cur, cand):
            return False, "the step keeps neither the running value nor the candidate: %s" % show(new)[:80]
    if not covered:
        return False, "the step's decisions hold under no ordering of the two values"
    return True, ",".join(sorted(covered))


def _identity_seed(t, name, fold):
    """the seed is the least element of the order for a maximum (the greatest for a minimum): it never survives a component"""
    # (an infinite f32 seed would be an identity as well, but it is also what an empty list would then report - not 0.0)
    if fold in ("max", "max_by"):
        uv = pse.unit_variant(t)
        if name == "repeat" and uv is not None and uv[1] == "None":
            return True         # Repeat::None is the least Repeat (ordinal 0; the order itself is C12/R3 `Repeat::cmp`) and
            #                     the documented result for the empty list
    return False


def intervals_fval(t):
    return t[2][2] if pse.is_const(t) and isinstance(t[2], tuple) and t[2][0] == "f" else None


def _fold_select_form(ctx, F, rule, name, fold, body, vec, tf):
    inst = body["path"]
    crate = F.body_unit[body["id"]][0]
    inl = lambda fn, bb: F.body_unit[bb["id"]][0] == crate and bb.get("impl_trait") not in (TL, "core::cmp::Ord", "core::cmp::PartialOrd")
    eng = pse.Engine(F, inline=inl, inline_loops=True)
    try:
        paths = eng.run(body)
    except pse.Budget:
        return 0
    ctx.count_paths(paths, body)
    rets = [p for p in paths if p.outcome == "return"]
    n = 0
    # (1) an explicit loop over the components with a plain running value
    accs = {p.ret for p in rets if p.ret[0] == "loop"}
    if len(accs) == 1:
        ACC = next(iter(accs))
        hdr, l = ACC[1], ACC[2][1]
        init = ACC[3]
        first = [e for p in rets for e in p.events if e["kind"] == "call" and is_trait_call(e, TL, name) and e["result"] == init]
        if first:
            # seeded with the first component: taken with next() from an ordered traversal of all components, the rest follow
            e0 = first[0]
            recv = e0["descs"][0]
            ok_seed = recv[0] == "&" and recv[1][0] == "deref" and recv[1][1][0] == "field" and recv[1][1][1][0] == "variant" \
                and recv[1][1][1][1][0] == "call" and recv[1][1][1][1][1].endswith("Iterator::next") and \
                ordered_source(_strip_ref(recv[1][1][1][1][2][0]), vec)
            ctx.ob(rule, inst + "/fold-seed", ok_seed, "the running value must start as the first component's %s(); it starts as %s"
                   % (name, show(init)[:160]), body["span"], what="fold-init-wrong")
        else:
            ctx.ob(rule, inst + "/fold-seed", _identity_seed(init, name, fold),
                   "the running value must start as the first component's value or as the order's %s element; it starts as %s"
                   % ("least" if fold != "min_by" else "greatest", show(init)[:160]), body["span"], what="fold-init-wrong")
        for p in paths:
            nx = [e for e in p.events if e["kind"] == "call" and e["fn"].get("name") == "next" and e["descs"]
                  and e["descs"][0][0] == "&mut" and e["descs"][0][1][0] == "loop" and e["descs"][0][1][1] == hdr]
            if p.outcome != "backedge" or not nx:
                continue
            if [v for (t, v, s_) in p.conds if t[0] == "discr" and t[1] == nx[0]["result"]] != [1]:
                continue
            lab = inst + "/fold-row[%s]" % ",".join(str(v) for (_, v, _) in p.conds[1:])
            item = ("field", ("variant", nx[0]["result"], "Some"), "0")
            src = nx[0]["descs"][0][1][3]
            ctx.ob(rule, lab + "/ordered-traversal", ordered_source(src, vec) or src == ACC[3] or _rest_of(src, vec),
                   "the fold must visit every component of self.%s in order; iterator is %s" % (tf, show(src)[:200]), body["span"],
                   trace_of(p), what="fold-not-over-all-components")
            got = [e for e in p.events if e["kind"] == "call" and is_trait_call(e, TL, name) and pse.contains(e["descs"][0], item)]
            ok_get = len(got) == 1 and got[0]["descs"][0] == ("&", ("deref", item))
            ctx.ob(rule, lab + "/reads-this-component", ok_get,
                   "each step must read %s() of the component being visited, once" % name, body["span"], trace_of(p),
                   what="mapper-wrong-getter")
            if not ok_get:
                continue
            cand = got[0]["result"]
            fin = [v for (k, v) in p.store.items() if k[0] == "L" and k[1] == 0 and k[2] == l]
            if len(fin) != 1:
                ctx.ob(rule, lab + "/step-shape", False, "the running value of this step is not recognisable", body["span"],
                       trace_of(p), what="fold-step-unknown")
                continue
            ok, why = _step_selects(p.conds, p.events, ACC, cand, fin[0], fold)
            ctx.ob(rule, lab + "/selects", ok, "merged %s must keep the %s of the running value and the candidate: %s"
                   % (name, "smaller" if fold == "min_by" else "greater", why), body["span"], trace_of(p), what="fold-kind-wrong")
            n += 1
        return n
    # (2) Iterator::fold(init, |acc, component| ..) over the components
    for p in rets:
        fs = [x for x in subterms(p.ret) if x[0] == "call" and x[1].split("::")[-1] == "fold" and "Iterator" in x[1] and len(x[2]) == 3]
        if not fs:
            continue
        f = fs[0]
        src, init, clo = f[2]
        mapped = src[0] == "call" and src[1].endswith("Iterator::map") and ordered_source(src[2][0], vec)
        ctx.ob(rule, inst + "/all-components", ordered_source(src, vec) or mapped,
               "the fold must range over all components of self.%s in order; ranges over %s" % (tf, show(src)[:200]),
               body["span"], trace_of(p), what="fold-not-over-all-components")
        if mapped:
            mapper_is(ctx, F, rule, inst, src[2][1], name, body["span"])
        optional = init[0] == "agg" and init[3] == "None"
        ctx.ob(rule, inst + "/fold-seed", optional or _identity_seed(init, name, fold),
               "the fold must start empty (None) or from the order's %s element that is also the documented result for an "
               "empty list; it starts as %s" % ("least" if fold != "min_by" else "greatest", show(init)[:120]), body["span"],
               what="fold-init-wrong")
        if mapped and clo[0] == "fn" and clo[2].split("::")[-1] in ("min", "max") and "f32" in clo[2]:
            # fold(seed, f32::min) / fold(seed, f32::max) over the mapped values
            ctx.ob(rule, inst + "/selects", (clo[2].split("::")[-1] == "min") == (fold == "min_by"),
                   "merged %s must keep the %s value; the step is %s" % (name, "smaller" if fold == "min_by" else "greater", clo[2]),
                   body["span"], trace_of(p), what="fold-kind-wrong")
            return 1
        cb = eng.closure_body(clo)
        if cb is None:
            ctx.ob(rule, inst + "/step-shape", False, "the fold's step is not a closure literal", body["span"], what="fold-step-unknown")
            return 1
        sp = [q for q in pse.Engine(F, inline=inl).run(cb) if q.outcome == "return"]
        ctx.count_paths(sp, cb)
        accp, itemp = ("param", 2), ("param", 3)
        cur = ("field", ("variant", accp, "Some"), "0") if optional else accp
        for q in sp:
            lab = inst + "/fold-step[%s]" % ",".join(str(v) for (_, v, _) in q.conds)
            got = [e for e in q.events if e["kind"] == "call" and is_trait_call(e, TL, name)]
            ok_get = len(got) == 1 and got[0]["descs"][0] in (("&", ("deref", itemp)), itemp)
            ctx.ob(rule, lab + "/reads-this-component", ok_get, "each step must read %s() of the component being visited, once"
                   % name, cb["span"], trace_of(q), what="mapper-wrong-getter")
            if not ok_get:
                continue
            cand = got[0]["result"]
            new = q.ret
            if optional:
                if not (new[0] == "agg" and new[3] == "Some"):
                    ctx.ob(rule, lab + "/step-shape", False, "a step must yield Some(value); yields %s" % show(new)[:100], cb["span"],
                           trace_of(q), what="fold-step-unknown")
                    continue
                new = new[4][0][1]
                had = next((v for (t, v, s_) in q.conds if t[0] == "discr" and t[1] == accp), None)
                if had == 0:
                    ctx.ob(rule, lab + "/selects", new == cand, "the first component's value must be taken as it is; the step keeps %s"
                           % show(new)[:100], cb["span"], trace_of(q), what="fold-kind-wrong")
                    n += 1
                    continue
            ok, why = _step_selects(q.conds, q.events, cur, cand, new, fold)
            ctx.ob(rule, lab + "/selects", ok, "merged %s must keep the %s of the running value and the candidate: %s"
                   % (name, "smaller" if fold == "min_by" else "greater", why), cb["span"], trace_of(q), what="fold-kind-wrong")
            n += 1
        # the result is the folded value itself (or the empty-list default)
        r = p.ret
        okr = r == f or r == ("field", ("variant", f, "Some"), "0")
        ctx.ob(rule, inst + "/result-is-fold", okr, "the result must be the folded value itself; it is %s" % show(r)[:120],
               body["span"], trace_of(p), what="result-not-fold")
        break
    return n


def _rest_of(src, vec):
    """the iterator the loop runs on is an ordered traversal of the components from which the first element was taken"""
    t = src
    while t[0] == "after":
        t = t[-1] if isinstance(t[-1], tuple) else t[1]
    return ordered_source(t, vec)


def check_cycle(ctx, F, rule, adt=MT):
    body = mt_method(F, "cycle_duration", adt)
    tf = timelines_field(F, adt)
    vec = ("field", ("deref", ("param", 1)), tf)
    eng = pse.Engine(F, inline=lambda fn, b: False)
    paths = eng.run(body)
    ctx.count_paths(paths, body)
    inst = body["path"]
    ok = len(paths) == 1
    if ok:
        r = paths[0].ret
        ok = r[0] == "call" and r[1].endswith("::flatten") and r[2][0][0] == "call" and r[2][0][1].endswith("Iterator::reduce")
        if ok:
            red = r[2][0]
            src = red[2][0]
            okm = src[0] == "call" and src[1].endswith("Iterator::map") and ordered_source(src[2][0], vec)
            ctx.ob(rule, inst + "/all-components", okm, "cycle_duration must range over all components", body["span"],
                   what="fold-not-over-all-components")
            if okm:
                mapper_is(ctx, F, rule, inst, src[2][1], "cycle_duration", body["span"])
            cb, ps = closure_paths(ctx, F, red[2][1])
            okc = cb is not None and len(ps) == 2
            if okc:
                for p in ps:
                    eq = [v for (t, v, s) in p.conds if t[0] == "call" and t[1].endswith("::eq") or (t[0] == "bin" and t[1] == "Eq")]
                    if not eq:
                        okc = False
                        continue
                    if eq[0] == 1:
                        okc = okc and p.ret in (("param", 2), ("param", 3))
                    else:
                        okc = okc and p.ret[0] == "agg" and p.ret[3] == "None"
            ctx.ob(rule, inst + "/common-or-none", okc,
                   "the reducer must keep the value when both agree and yield None otherwise", body["span"],
                   what="cycle-reducer-wrong")
    if not ok and _cycle_loop_form(ctx, F, rule, inst, body, paths, vec):
        return
    if not ok:
        ctx.ob(rule, inst + "/shape", False, "cycle_duration must be reduce(common-or-None).flatten(); summary: %s"
               % [show(p.ret) for p in paths], body["span"], what="cycle-shape")


def _peel_after(t):
    while t[0] == "after":
        t = t[3]
    return t


def _cycle_loop_form(ctx, F, rule, inst, body, paths, vec):
    """the same fold written as a loop:  common = first?;  for d in rest { if common != d { common = None } }  common
    (recognised only in this shape; every step is checked, so that the loop computes common-or-None over all components)"""
    rets = [p for p in paths if p.outcome == "return"]
    loops = [p for p in rets if p.ret[0] == "loop" and p.ret[2][0] == "local"]
    if len(loops) != 1:
        return False
    R = loops[0].ret
    hdr, l, first_value = R[1], R[2][1], R[3]

    def getter_of(t):
        """X when t is Timeline::cycle_duration(&*X)"""
        if t[0] == "call" and t[1] == TL + "::cycle_duration" and len(t[2]) == 1 and t[2][0][0] == "&":
            x = t[2][0][1]
            return x[1] if x[0] == "deref" else x
        return None

    # the first element: either the mapped value itself (iter().map(cycle_duration)) or cycle_duration(first element)
    mapped = True
    first_payload = first_value
    if getter_of(first_value) is not None:
        mapped = False
        first_payload = getter_of(first_value)
    if not (first_payload[0] == "field" and first_payload[1][0] == "variant" and first_payload[1][2] == "Some"):
        return False
    first = first_payload[1][1]
    if not (first[0] == "call" and (first[1].endswith("Iterator>::next") or first[1].endswith("Iterator::next"))):
        return False
    recv = first[2][0]
    SRC = recv[1] if recv[0] == "&mut" else None
    if mapped:
        okm = SRC is not None and SRC[0] == "call" and SRC[1].endswith("Iterator::map") and ordered_source(SRC[2][0], vec)
    else:
        okm = SRC is not None and ordered_source(SRC, vec)
    ctx.ob(rule, inst + "/all-components", bool(okm), "cycle_duration must range over all components (loop form)",
           body["span"], what="fold-not-over-all-components")
    if not okm:
        return True
    if mapped:
        mapper_is(ctx, F, rule, inst, SRC[2][1], "cycle_duration", body["span"])
    okc = True
    n_iter = 0
    for p in paths:
        nx = [e for e in p.events if e["kind"] == "call" and e["fn"].get("name") == "next"]
        if p in rets:
            # empty list -> None; otherwise the loop variable is returned as it is
            if p.ret[0] == "agg":
                okc = okc and p.ret[3] == "None" and len(nx) == 1
            continue
        if p.outcome != "backedge" or len(nx) != 2:
            okc = False
            continue
        lv = nx[1]["descs"][0]
        same_iter = lv[0] == "&mut" and lv[1][0] == "loop" and lv[1][1] == hdr and _peel_after(lv[1][3]) == SRC
        item = ("field", ("variant", nx[1]["result"], "Some"), "0")
        if not mapped:
            item = ("call", TL + "::cycle_duration", (("&", ("deref", item)),))
        dec = None
        for (t, v, s_) in p.conds:
            if t[0] == "bin" and t[1] in ("Eq", "Ne") and {t[2], t[3]} == {R, item}:
                dec = (v == 1) == (t[1] == "Eq")       # True: they agree
        fin = p.store.get(("L", 0, l))
        n_iter += 1
        if dec is True:
            okc = okc and same_iter and (fin is None or fin == R)
        elif dec is False:
            okc = okc and same_iter and fin is not None and fin[0] == "agg" and fin[3] == "None"
        else:
            okc = False
    ctx.ob(rule, inst + "/common-or-none", okc and n_iter == 2,
           "the loop must keep the common value while every further component agrees with it and yield None otherwise",
           body["span"], what="cycle-reducer-wrong")
    return True


def _ordering_follows(p, a, b, result):
    """does Ordering::<result> for (a, b) follow from the path's decisions (or from the constants themselves)?"""
    facts = {}
    for (t, v, s_) in p.conds:
        if t[0] == "bin" and t[1] in ("Lt", "Le", "Eq", "Ne") and v in (0, 1):
            facts[(t[1], t[2], t[3])] = v

    def lt(x, y):
        """True / False when x < y is established / refuted, None otherwise"""
        nx, ny = pse.fnum(x), pse.fnum(y)
        if nx is not None and ny is not None:
            return nx < ny
        if ("Lt", x, y) in facts:
            return bool(facts[("Lt", x, y)])
        if ("Le", y, x) in facts:
            return not facts[("Le", y, x)]
        eq = facts.get(("Eq", x, y), facts.get(("Eq", y, x)))
        ne = facts.get(("Ne", x, y), facts.get(("Ne", y, x)))
        if eq == 1 or ne == 0:
            return False
        return None
    if result == "Less":
        return lt(a, b) is True
    if result == "Greater":
        return lt(b, a) is True
    if result == "Equal":
        return lt(a, b) is False and lt(b, a) is False
    return False


def check_repeat_order(ctx, F, rule):
    """Repeat's Ord: cmp compares as_ordinal; None -> 0, Times(n) -> n, Infinite -> u32::MAX"""
    cmpb = F.one(crate="mina_core", name="cmp", impl_self_adt=REPEAT, impl_trait="core::cmp::Ord")
    # the crate's own helpers (today: as_ordinal) are followed, whatever they are called: on every path the result must
    # be u32::cmp(ordinal(self), ordinal(other)) with ordinal = None -> 0, Times(n) -> n, Infinite -> u32::MAX
    eng = pse.Engine(F, inline=lambda fn, bb: F.body_unit[bb["id"]][0] == "mina_core")
    ps = [p for p in eng.run(cmpb) if p.outcome == "return"]
    ctx.count_paths(ps, cmpb)

    def ordinal(i, var):
        me = ("deref", ("param", i))
        return {"None": ("const", "u32", 0), "Infinite": ("const", "u32", 4294967295),
                "Times": ("field", ("variant", me, "Times"), "0")}.get(var)

    seen = set()
    ok = bool(ps)
    got = []
    for p in ps:
        var = {}
        for (t, v, s_) in p.conds:
            if t[0] == "discr" and t[1] in (("deref", ("param", 1)), ("deref", ("param", 2))) and not isinstance(v, tuple):
                var[t[1][1][1]] = {int(d): n for n, d in t[2]}.get(v)
        r = p.ret
        got.append(show(r))
        okp = 1 in var and 2 in var
        if okp:
            a, b = ordinal(1, var[1]), ordinal(2, var[2])
            if r[0] == "call" and r[1].endswith("::cmp") and len(r[2]) == 2:
                okp = tuple(x[1] if x[0] == "&" else x for x in r[2]) == (a, b)
            elif pse.unit_variant(r) and pse.unit_variant(r)[0] == "core::cmp::Ordering":
                # the comparison written out: the constant result must follow from what the path decided about (a, b)
                okp = _ordering_follows(p, a, b, pse.unit_variant(r)[1])
            else:
                okp = False
        ok = ok and okp
        if okp:
            seen.add((var[1], var[2]))
    ok = ok and len(seen) == 9
    ctx.ob(rule, "Repeat::cmp", ok,
           "Repeat's order must compare ordinals (None -> 0, Times(n) -> n, Infinite -> u32::MAX) of self and other for all "
           "nine variant pairs; decided pairs %s; summaries %s" % (sorted(seen), got[:4]), cmpb["span"],
           what="repeat-order-wrong")
    eng = pse.Engine(F, inline=lambda fn, bb: False)
    pc = F.one(crate="mina_core", name="partial_cmp", impl_self_adt=REPEAT)
    ps = eng.run(pc)
    ok = len(ps) == 1 and ps[0].ret[0] == "agg" and ps[0].ret[3] == "Some" and ps[0].ret[4][0][1][0] == "call" \
        and ps[0].ret[4][0][1][1].endswith("::cmp")
    ctx.ob(rule, "Repeat::partial_cmp", ok, "partial_cmp must be Some(cmp)", pc["span"], what="repeat-partial-cmp")


def check_wrapping(ctx, F, rule):
    of = F.one(crate="mina_core", name="of", impl_self_adt=MT)
    eng = pse.Engine(F, inline=lambda fn, b: False)
    ps = eng.run(of)
    ctx.count_paths(ps, of)
    tf = timelines_field(F)
    ok = len(ps) == 1
    if ok:
        r = ps[0].ret
        v = dict(r[4]).get(tf) if r[0] == "agg" else None
        ok = v is not None and v[0] == "call" and (
            (v[1].endswith("Iterator::collect") and v[2][0][0] == "call" and
             v[2][0][1].endswith("IntoIterator::into_iter") and v[2][0][2] == (("param", 1),)) or
            (v[1].endswith("FromIterator<T>>::from_iter") and v[2] == (("param", 1),)))
    ctx.ob(rule, "MergedTimeline::of", ok, "of() must collect its argument in order; summary %s"
           % [show(p.ret) for p in ps], of["span"], what="of-not-in-order")
    fr = F.one(crate="mina_core", name="from", impl_self_adt=MT, impl_trait="core::convert::From")
    eng2 = pse.Engine(F, inline=lambda fn, b: False)
    ps = eng2.run(fr)
    ok = len(ps) == 1
    if ok:
        r = ps[0].ret
        arr = None
        if r[0] == "call" and r[1].endswith("MergedTimeline::<T>::of"):
            arr = r[2][0]                                  # of([t])
        elif r[0] == "agg" and r[1] == "adt" and r[2] == MT:
            v = dict(r[4]).get(timelines_field(F))
            if v is not None and v[0] == "call" and v[1] == "vec-literal":
                arr = v[2][0]                              # Self { timelines: vec![t] }
        ok = arr is not None and arr[0] == "agg" and arr[1] == "array" and tuple(v for _, v in arr[4]) == (("param", 1),)
    ctx.ob(rule, "From<T> for MergedTimeline", ok, "wrapping a single timeline must be of([t])", fr["span"],
           what="from-wrong")
    tb = F.one(crate="mina_core", name="build", impl_self_adt=MT, impl_trait="mina_core::timeline::TimelineOrBuilder")
    ps = eng2.run(tb)
    ok = len(ps) == 1 and ps[0].ret == ("param", 1) and not calls(ps[0], lambda e: True)
    ctx.ob(rule, "TimelineOrBuilder for MergedTimeline", ok, "build() of a merged timeline must be the identity",
           tb["span"], what="merged-build-not-identity")
    # clone keeps every component in order
    cl = F.one(crate="mina_core", name="clone", impl_self_adt=MT, impl_trait="core::clone::Clone")
    ps = eng2.run(cl)
    ok = len(ps) == 1
    if ok:
        r = ps[0].ret
        vec = ("field", ("deref", ("param", 1)), tf)
        # of(iter(&vec).cloned())  or  Self { vec: vec.clone() }  (Vec::clone clones every element in order)
        ok = (r[0] == "call" and r[1].endswith("MergedTimeline::<T>::of") and r[2][0][0] == "call" and
              r[2][0][1].endswith("Iterator::cloned") and ordered_source(r[2][0][2][0], vec)) or \
            (r[0] == "agg" and r[1] == "adt" and r[2] == MT and dict(r[4]).get(tf) == vec)
    ctx.ob(rule, "MergedTimeline::clone", ok, "clone must clone every component in order; summary %s"
           % [show(p.ret) for p in ps], cl["span"], what="clone-not-ordered")


def check(ctx):
    F = ctx.facts
    check_loop_method(ctx, F, "R1", "update", mutable=False)
    check_loop_method(ctx, F, "R2", "start_with", mutable=True)
    check_fold(ctx, F, "R3", "delay", "min_by")
    check_fold(ctx, F, "R3", "duration", "max_by")
    check_fold(ctx, F, "R3", "repeat", "max")
    check_cycle(ctx, F, "R3")
    check_repeat_order(ctx, F, "R3")
    check_wrapping(ctx, F, "R4")
    ctx.notes.append("not decided: equality of floats is inherited from the components")
    ctx.assumptions += ["std iterator adaptors behave as documented (iter/iter_mut front to back; min_by/max_by "
                        "return the minimum/maximum under the comparator; reduce folds left to right)"]


CTL = "witness_controls::merged::CtlMerged"


def controls(ctx, F):
    check_loop_method(ctx, F, "R1", "update", mutable=False, adt=CTL)
    check_loop_method(ctx, F, "R2", "start_with", mutable=True, adt=CTL)
    check_fold(ctx, F, "R3", "delay", "min_by", adt=CTL)
    check_fold(ctx, F, "R3", "duration", "max_by", adt=CTL)
    return [("R1", "traversal-not-ordered", "merged update that iterates in reverse"),
            ("R2", "traversal-not-ordered", "merged start_with that reaches only the first component"),
            ("R3", "fold-kind-wrong", "merged delay folded with a maximum"),
            ("R3", "comparator-not-natural", "merged duration folded with a reversed comparator")]
