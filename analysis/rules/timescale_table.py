"""Decision table of TimeScale::get_position (helpers inlined), shared by C02, C03, C10 and C20."""
from facts import AnchorLost
import pse
import terms
import intervals
from intervals import Iv, Env, ival, refine
from pse import show

TS = "mina_core::time_scale::TimeScale"
TSP = "mina_core::time_scale::TimeScalePosition"
SELF = ("deref", ("param", 1))
TIME = ("param", 2)


class Row:
    pass


def fld(name):
    return ("field", SELF, name)


def build(ctx, F=None, adt=TS):
    F = F or ctx.facts
    body = F.one(name="get_position", impl_self_adt=adt)
    eng = pse.Engine(F)
    paths = eng.run(body)
    ctx.count_paths(paths, body)
    a = F.adt(adt)
    # fields that only cache a function of the configuration (set by the constructor from its arguments, never written
    # again) are replaced by their defining expression over the configured fields, so that the rules below see what is
    # computed, wherever it is computed
    derived = derived_fields(ctx, F, adt)
    paths = resolve(paths, derived)
    cached = derived["fields"] if derived else ()
    f32s = [f["name"] for f in a["variants"][0]["fields"] if f["ty"] == "f32" and f["name"] not in cached]
    bools = [f["name"] for f in a["variants"][0]["fields"] if f["ty"] == "bool" and f["name"] not in cached]
    reps = [f["name"] for f in a["variants"][0]["fields"] if f["ty"].endswith("::Repeat") and f["name"] not in cached]
    if len(f32s) != 2 or len(bools) != 1 or len(reps) != 1:
        raise AnchorLost("TimeScale must have two f32 fields, one bool and one Repeat besides cached values (has %s)"
                         % a["variants"][0]["fields"])
    # roles by behaviour: the field subtracted from the time in the not-started test is the delay
    delay = None
    for p in paths:
        if p.ret[0] == "agg" and p.ret[3] == "NotStarted":
            for (t, v, s) in p.conds:
                # idioms of the not-started test:  time - delay < 0   |   time < delay
                if t[0] == "bin" and t[1] == "Lt" and t[2][0] == "bin" and t[2][1] == "Sub" and t[2][2] == TIME \
                        and t[2][3][0] == "field" and t[2][3][1] == SELF:
                    delay = t[2][3][2]
                if t[0] == "bin" and t[1] == "Lt" and t[2] == TIME and t[3][0] == "field" and t[3][1] == SELF:
                    delay = t[3][2]
    if delay not in f32s:
        raise AnchorLost("cannot identify the delay field of TimeScale from the not-started test")
    roles = {"delay": delay, "duration": [f for f in f32s if f != delay][0], "reverse": bools[0], "repeat": reps[0]}
    S = ("bin", "Sub", TIME, fld(roles["delay"]), "f32")
    D = fld(roles["duration"])
    rows = []
    for p in paths:
        r = Row()
        r.path = p
        r.ret = p.ret
        r.kind = p.ret[3] if p.ret[0] == "agg" else None
        r.repeat = None
        r.reverse = None
        for (t, v, s) in p.conds:
            if t[0] == "discr" and t[1] == fld(roles["repeat"]) and not isinstance(v, tuple):
                r.repeat = {int(d): n for n, d in t[2]}.get(v)
            if t == fld(roles["reverse"]):
                r.reverse = v
        r.pos = None
        r.loop = None
        if r.kind == "Active":
            r.pos = dict(p.ret[4]).get("0")
            r.loop = dict(p.ret[4]).get("1")
        elif r.kind == "Ended":
            r.pos = dict(p.ret[4]).get("0")
        # interval environment from the branch decisions, in order
        env = Env(D)
        env.set(S, Iv(-intervals.INF, intervals.INF, 1))
        for (t, v, s) in p.conds:
            if isinstance(v, int):
                if t == ("bin", "Lt", TIME, fld(roles["delay"])) and v == 0:
                    # time >= delay  =>  time - delay >= 0 (float subtraction is exact in sign)
                    env.set(S, Iv(0, intervals.INF, 1))
                refine(env, t, v)
        r.env = env
        r.label = "%s repeat=%s reverse=%s [%s]" % (r.kind, r.repeat, r.reverse,
                                                  ",".join(str(v) for (_, v, _) in p.conds))
        rows.append(r)
    return {"rows": rows, "roles": roles, "S": S, "D": D, "body": body, "engine": eng, "derived": derived}


def resolve(paths, derived):
    """Rewrite paths with every cached field replaced by its definition.  A definition that depends on a decision of the
    constructor (`if repeat == Infinite { .. } else { .. }`) multiplies the paths that read the field: one copy per
    constructor path, carrying that path's decisions (expressed over the configured fields) after its own."""
    if not derived:
        return paths
    import copy
    out = []
    for p in paths:
        mentions = any(pse.contains(t, fld(f)) for f in derived["fields"] for (t, v, s_) in p.conds) or \
            any(pse.contains(p.ret, fld(f)) for f in derived["fields"])
        if not mentions:
            out.append(p)
            continue
        for (cconds, vals) in derived["cases"]:
            m = {fld(k): v for k, v in vals.items()}
            q = copy.copy(p)
            # the method's own decisions keep their order (rules read them in program order); the constructor's follow
            conds = _consistent([(terms.subst(t, m), v, s_) for (t, v, s_) in p.conds] + list(cconds))
            if conds is None:
                continue            # the constructor case and the method's own decisions exclude each other
            q.conds = conds
            q.ret = terms.subst(p.ret, m)
            out.append(q)
    return out


def _consistent(conds):
    """conds with repeated decisions removed, or None when they contradict each other (same discriminant / flag decided
    differently, or a comparison no float satisfies: `INFINITY < x`)"""
    out = []
    allowed = {}
    flags = {}
    for (t, v, s_) in conds:
        if t[0] == "discr":
            universe = {int(d) for _, d in t[2]}
            now = {v} if not isinstance(v, tuple) else universe - {int(x) for x in v[1]}
            before = allowed.get(t, universe)
            if before <= now:
                continue            # nothing new
            allowed[t] = before & now
            if not allowed[t]:
                return None
            out.append((t, v, s_))
            continue
        if v in (0, 1):
            if t in flags:
                if flags[t] != v:
                    return None
                continue
            flags[t] = v
            if t[0] == "bin" and t[1] == "Lt" and pse.is_const(t[2]) and isinstance(t[2][2], tuple) and t[2][2][0] == "f" \
                    and t[2][2][2] == float("inf"):
                if v == 1:
                    return None
                continue            # `INFINITY < x` is false for every x: no information
        out.append((t, v, s_))
    return out


def derived_fields(ctx, F, adt):
    """{"fields": [...], "cases": [(decisions over the configured fields, {field: term over the configured fields})]} for
    the fields of the time scale that its constructor computes from its arguments.  Only accepted when the type is
    immutable after construction (no function stores to a field) and every other function that yields a value of the
    type does so through that constructor; otherwise None (and the caller's field census fails closed)."""
    from rulelib import field_writers
    a = F.adt(adt)
    fields = [f["name"] for f in a["variants"][0]["fields"]]
    ctors = []
    for b in F.find(impl_self_adt=adt):
        if b["def_kind"] == "Closure" or b.get("impl_exp"):      # derived impls (Clone) copy field by field
            continue
        ps = [q for q in pse.Engine(F, inline=lambda fn, bb: False).run(b) if q.outcome == "return"]
        if ps and all(q.ret[0] == "agg" and q.ret[2] == adt for q in ps):
            ctors.append((b, ps))
    if len(ctors) != 1:
        return None
    b, ps = ctors[0]
    ctx.count_paths(ps, b)
    # configured fields: those that hold the same argument on every path of the constructor
    direct = None
    for q in ps:
        d = {f: v for f, v in dict(q.ret[4]).items() if v[0] == "param"}
        direct = d if direct is None else {f: v for f, v in direct.items() if d.get(f) == v}
    if len(direct) == len(fields):
        return None
    fw = field_writers(F, adt)
    derived_impls = {x["path"] for x in F.find(impl_self_adt=adt) if x.get("impl_exp")}
    for fns in fw.values():
        for path, kinds in fns.items():
            if path in derived_impls:
                continue
            if path != b["path"] or any(k != "ctor" for k in kinds):
                return None
    inv = {v: fld(f) for f, v in direct.items()}
    if len(inv) != len(direct):
        return None
    def has_param(t):
        return any(x[0] == "param" for x in pse.subterms(terms.subst(t, {SELF: ("self",)})))
    cases = []
    for q in ps:
        vals = {}
        for f, v in dict(q.ret[4]).items():
            if f in direct:
                continue
            t = terms.subst(v, inv)
            if has_param(t):
                return None         # depends on an argument that is not stored: not a function of the configuration
            vals[f] = t
        conds = [(terms.subst(t, inv), v, s_) for (t, v, s_) in q.conds]
        if any(has_param(t) for (t, v, s_) in conds):
            return None
        cases.append((conds, vals))
    cached = [f for f in fields if f not in direct]
    ctx.notes.append("cached fields of %s resolved to their definitions in %s: %s" % (adt.split("::")[-1], b["path"], cached))
    return {"fields": cached, "cases": cases}
