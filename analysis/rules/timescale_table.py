"""Decision table of TimeScale::get_position (helpers inlined), shared by C02, C03, C10 and C20."""
from facts import AnchorLost
import pse
import intervals
from intervals import Iv, Env, ival, refine
from pse import show

TS = "mina_core::time_scale::TimeScale"
TSP = "mina_core::time_scale::TimeScalePosition"
SELF = ("deref", ("param", 1))
TIME = ("param", 2)


class Row:
    pass


def fld(name):
    return ("field", SELF, name)


def build(ctx, F=None, adt=TS):
    F = F or ctx.facts
    body = F.one(name="get_position", impl_self_adt=adt)
    eng = pse.Engine(F)
    paths = eng.run(body)
    ctx.count_paths(paths, body)
    a = F.adt(adt)
    f32s = [f["name"] for f in a["variants"][0]["fields"] if f["ty"] == "f32"]
    bools = [f["name"] for f in a["variants"][0]["fields"] if f["ty"] == "bool"]
    reps = [f["name"] for f in a["variants"][0]["fields"] if f["ty"].endswith("::Repeat")]
    if len(f32s) != 2 or len(bools) != 1 or len(reps) != 1:
        raise AnchorLost("TimeScale must have two f32 fields, one bool and one Repeat (has %s)" % a["variants"][0]["fields"])
    # roles by behaviour: the field subtracted from the time in the not-started test is the delay
    delay = None
    for p in paths:
        if p.ret[0] == "agg" and p.ret[3] == "NotStarted":
            for (t, v, s) in p.conds:
                # idioms of the not-started test:  time - delay < 0   |   time < delay
                if t[0] == "bin" and t[1] == "Lt" and t[2][0] == "bin" and t[2][1] == "Sub" and t[2][2] == TIME \
                        and t[2][3][0] == "field" and t[2][3][1] == SELF:
                    delay = t[2][3][2]
                if t[0] == "bin" and t[1] == "Lt" and t[2] == TIME and t[3][0] == "field" and t[3][1] == SELF:
                    delay = t[3][2]
    if delay not in f32s:
        raise AnchorLost("cannot identify the delay field of TimeScale from the not-started test")
    roles = {"delay": delay, "duration": [f for f in f32s if f != delay][0], "reverse": bools[0], "repeat": reps[0]}
    S = ("bin", "Sub", TIME, fld(roles["delay"]), "f32")
    D = fld(roles["duration"])
    rows = []
    for p in paths:
        r = Row()
        r.path = p
        r.ret = p.ret
        r.kind = p.ret[3] if p.ret[0] == "agg" else None
        r.repeat = None
        r.reverse = None
        for (t, v, s) in p.conds:
            if t[0] == "discr" and t[1] == fld(roles["repeat"]) and not isinstance(v, tuple):
                r.repeat = {int(d): n for n, d in t[2]}.get(v)
            if t == fld(roles["reverse"]):
                r.reverse = v
        r.pos = None
        r.loop = None
        if r.kind == "Active":
            r.pos = dict(p.ret[4]).get("0")
            r.loop = dict(p.ret[4]).get("1")
        elif r.kind == "Ended":
            r.pos = dict(p.ret[4]).get("0")
        # interval environment from the branch decisions, in order
        env = Env(D)
        env.set(S, Iv(-intervals.INF, intervals.INF, 1))
        for (t, v, s) in p.conds:
            if isinstance(v, int):
                if t == ("bin", "Lt", TIME, fld(roles["delay"])) and v == 0:
                    # time >= delay  =>  time - delay >= 0 (float subtraction is exact in sign)
                    env.set(S, Iv(0, intervals.INF, 1))
                refine(env, t, v)
        r.env = env
        r.label = "%s repeat=%s reverse=%s [%s]" % (r.kind, r.repeat, r.reverse,
                                                  ",".join(str(v) for (_, v, _) in p.conds))
        rows.append(r)
    return {"rows": rows, "roles": roles, "S": S, "D": D, "body": body, "engine": eng}
