"""C18 - bevy Animator: time is conserved and the target lands on the final values (DESIGN.md section 5, C18)."""
from facts import AnchorLost
from rulelib import trace_of, calls, is_trait_call, call_is, field_roles
import pse
from pse import show

ANIMATOR = "bevy_mina::animator::Animator"
STATE = "bevy_mina::animator::AnimationState"
EVENT = "bevy_mina::animator::AnimationStateChanged"
TL = "mina_core::timeline::Timeline"
ORDER = {"None": 0, "Waiting": 1, "Playing": 2, "Ended": 3}


def roles(F):
    return field_roles(F.adt(ANIMATOR), {
        "enabled": lambda t: t == "bool",
        "pos": lambda t: t == "core::time::Duration",
        "timeline": lambda t: t.startswith("core::option::Option<"),
        "state": lambda t: t == STATE,
    })


class Row:
    pass


def build(ctx, F, fn_name="animate"):
    R = roles(F)
    body = F.one(crate="bevy_mina", name=fn_name)
    eng = pse.Engine(F)
    paths = eng.run(body)
    ctx.count_paths(paths, body)
    vs = eng.variants_of(STATE)
    rows = []
    for p in paths:
        nx = calls(p, lambda e: e["fn"]["name"] == "next" and e["fn"].get("trait", "").endswith("Iterator"))
        if not nx:
            continue
        took = [v for (t, v, s) in p.conds if t[0] == "discr" and t[1] == nx[0]["result"]]
        if took != [1]:
            continue
        r = Row()
        r.path = p
        item = ("field", ("variant", nx[0]["result"], "Some"), "0")
        r.entity = ("field", item, "0")
        r.A = ("field", item, "1")
        r.cell = ("M", r.A)
        A0 = ("deref", r.A)
        f0 = lambda role: ("field", A0, R[role])
        r.enabled = next((v for (t, v, s) in p.conds if t == f0("enabled")), None)
        r.has_tl = None
        for (t, v, s) in p.conds:
            d = t
            vv = v
            if t[0] == "bin" and t[1] == "Eq" and t[2][0] == "discr" and pse.is_const(t[3]):
                d = t[2]
                vv = v if t[3][2] == 1 else 1 - v
            if d[0] == "discr" and d[1] == f0("timeline") and r.has_tl is None:
                r.has_tl = vv
        k = p.known.get(("discr", f0("state"), vs))
        r.s0 = None
        if k is not None and k[0] == "is":
            r.s0 = {int(d): n for n, d in vs}.get(k[1])
        r.s0_excl = set()
        if k is not None and k[0] == "not":
            r.s0_excl = {n for n, d in vs if int(d) in k[1]}
        pos_secs = ("call", "core::time::Duration::as_secs_f32", (("&", f0("pos")),))
        r.ge_delay = r.ge_duration = None
        for (t, v, s) in p.conds:
            if t[0] == "bin" and t[1] == "Le" and t[3] == pos_secs and call_is(t[2], TL, "delay"):
                r.ge_delay = v
            if t[0] == "bin" and t[1] == "Le" and t[3] == pos_secs and call_is(t[2], TL, "duration"):
                r.ge_duration = v
        r.pos_secs = pos_secs
        gm = calls(p, lambda e: e["fn"]["name"] == "get_mut" and "Query" in e["callee"])
        r.get_mut = gm
        r.found = None
        for (t, v, s) in p.conds:
            if gm and t[0] == "discr" and t[1] == gm[0]["result"] and not isinstance(v, tuple):
                r.found = {int(d): n for n, d in t[2]}.get(v)
        r.state_stores = [e for e in p.events if e["kind"] == "store" and e["cell"] == r.cell and e["path"] == (("field", R["state"]),)]
        r.other_stores = [e for e in p.events if e["kind"] == "store" and e["cell"] == r.cell and e not in r.state_stores]
        r.f0 = f0
        r.sends = calls(p, lambda e: e["fn"]["name"] == "send" and "EventWriter" in e["callee"])
        r.updates = calls(p, lambda e: is_trait_call(e, TL, "update"))
        r.adds = calls(p, lambda e: e["args"] and e["args"][0] == ("ref", r.cell, (("field", R["pos"]),), True))
        # idiom: position = position + delta  (a store of Add::add / saturating_add of the old position)
        r.add_stores = []
        for e in p.events:
            if e["kind"] == "store" and e["cell"] == r.cell and e["path"] == (("field", R["pos"]),):
                v = e["value"]
                old, inc = None, None
                if v[0] == "call" and (v[1] == "<core::time::Duration as core::ops::arith::Add>::add" or
                                       v[1].endswith("Duration::saturating_add")) and len(v[2]) == 2:
                    old, inc = v[2]
                if v[0] == "bin" and v[1] == "Add":     # the engine's model of Add::add on Duration
                    old, inc = v[2], v[3]
                if old == f0("pos"):
                    r.add_stores.append({"callee": "<core::time::Duration as core::ops::arith::AddAssign>::add_assign",
                                         "descs": (("&mut", f0("pos")), inc), "seq": e["seq"], "store": e})
        r.adds = r.adds + r.add_stores
        fin = eng.read_loc(p, r.cell, (("field", R["state"]),))
        r.final = pse.unit_variant(fin)[1] if pse.unit_variant(fin) else (r.s0 if fin == f0("state") else None)
        r.final_term = fin
        r.f0 = f0
        r.label = "enabled=%s timeline=%s state=%s pos>=delay=%s pos>=duration=%s target=%s" % (
            r.enabled, r.has_tl, r.s0 or ("not" + "/".join(sorted(r.s0_excl)) if r.s0_excl else "?"), r.ge_delay, r.ge_duration, r.found)
        rows.append(r)
    return {"rows": rows, "roles": R, "body": body, "engine": eng}


def rules(ctx, tab, tag=""):
    body = tab["body"]
    site = body["span"]
    R = tab["roles"]
    n_state = n_send = 0
    for r in tab["rows"]:
        p = r.path
        lab = "row[%s]" % r.label
        if p.outcome != "backedge":
            ctx.ob("R0" + tag, lab + "/continues", False, "a loop iteration must go on to the next animator (outcome %s)" % p.outcome,
                   site, trace_of(p), what="iteration-exits")
            continue
        effects = r.state_stores + r.other_stores + r.sends + r.updates + r.adds
        if effects:
            # fail closed: "a disabled animator changes nothing" - every row with an effect must have found it enabled
            ctx.ob("R1" + tag, lab + "/effects-only-when-enabled", r.enabled == 1,
                   "this row changes something (stores %d, events %d, updates %d, time %d) without having tested that the "
                   "animator is enabled" % (len(r.state_stores) + len(r.other_stores), len(r.sends), len(r.updates), len(r.adds)),
                   site, trace_of(p), what="enabled-not-checked")
        if r.enabled == 0:
            ctx.ob("R1" + tag, lab + "/disabled-no-effect", not effects,
                   "a disabled animator changes nothing (stores %d, events %d, updates %d, time %d)"
                   % (len(r.state_stores) + len(r.other_stores), len(r.sends), len(r.updates), len(r.adds)), site, trace_of(p),
                   what="disabled-has-effects")
            continue
        # R2: time conservation
        ok_form = all(e["callee"].startswith("<core::time::Duration as core::ops::arith::AddAssign>::add_assign") or
                      e["callee"].endswith("Duration::saturating_add") for e in r.adds) and \
            all(e["descs"][1] == ("call", "bevy_time::time::Time::delta", (("&", ("deref", ("param", 1))),)) for e in r.adds)
        other_pos = [e for e in r.other_stores if e["path"] == (("field", R["pos"]),)
                     and not any(a.get("store") is e for a in r.adds)]
        ctx.ob("R2" + tag, lab + "/position-only-plus-delta", ok_form and not other_pos and len(r.adds) <= 1,
               "timeline_position may only grow by exactly time.delta(), at most once per frame; writes: %s"
               % ([[show(d)[:80] for d in e["descs"]] for e in r.adds] + [show(e["value"])[:80] for e in other_pos]), site,
               trace_of(p), what="position-not-old-plus-delta")
        if r.has_tl == 0:
            ctx.ob("R2" + tag, lab + "/no-timeline-no-time", not r.adds, "without a timeline no time is accumulated", site,
                   trace_of(p), what="time-without-timeline")
            # no-timeline rows: state := None (+ one event) iff it was not None
            okn = all(pse.unit_variant(e["value"]) and pse.unit_variant(e["value"])[1] == "None" for e in r.state_stores) and not r.updates
            ctx.ob("R3" + tag, lab + "/no-timeline-state", okn and (len(r.state_stores) <= 1),
                   "without a timeline the state can only be set to None", site, trace_of(p), what="no-timeline-state")
            # ... and it is set (and announced) exactly when it was something else: a row that stores None must have found the
            # state different from None (otherwise every frame announces a change that did not happen), a row that leaves it
            # must have found it None (otherwise an animator whose timeline was taken away keeps reporting Playing / Ended)
            was_none = 1 if r.s0 == "None" else 0 if (r.s0 is not None or "None" in r.s0_excl) else None
            ctx.ob("R3" + tag, lab + "/no-timeline-reset-iff-not-none", was_none is not None and (len(r.state_stores) == 1) == (was_none == 0),
                   "without a timeline the state is reset to None exactly when it was not None (state was None: %s, stores: %d)"
                   % ({1: "yes", 0: "no", None: "not tested"}[was_none], len(r.state_stores)), site, trace_of(p),
                   what="no-timeline-reset-wrong")
        else:
            want_add = (r.final != "Ended")
            ctx.ob("R2" + tag, lab + "/time-iff-not-ended", (len(r.adds) == 1) == want_add and r.final is not None,
                   "the position grows by the frame delta exactly when the animator is not Ended at the end of the frame "
                   "(final state %s, %d increment(s))" % (r.final, len(r.adds)), site, trace_of(p),
                   what="time-not-conserved")
            # R3: forward only, with the right guards
            cur = r.s0
            for e in r.state_stores:
                n_state += 1
                v = pse.unit_variant(e["value"])
                new = v[1] if v else None
                ok = new in ORDER and (cur is None or ORDER[new] > ORDER.get(cur, -1))
                why = "forward"
                # several steps may be taken in one frame, in one store or in several: only the frame's final state and
                # its single event are observable
                if ok and new == "Waiting":
                    ok = cur == "None"
                    why = "Waiting is entered only from None"
                if ok and new == "Playing":
                    ok = cur in ("None", "Waiting") and r.ge_delay == 1
                    why = "Playing is entered only before it was Playing and only when position >= delay"
                if ok and new == "Ended":
                    ok = r.ge_duration == 1
                    why = "Ended is entered only when position >= total duration"
                if ok and new == "None":
                    ok = False
                ctx.ob("R3" + tag, lab + "/store[%s->%s]" % (cur, new), ok,
                       "state may only move forward None -> Waiting -> Playing -> Ended (%s); this row stores %s over %s"
                       % (why, new, cur), site, trace_of(p), what="state-transition-wrong")
                cur = new
            # no delay of transitions: if Waiting (initially or just stored) and pos >= delay, Playing must be stored in this row
            stored = [pse.unit_variant(e["value"])[1] for e in r.state_stores if pse.unit_variant(e["value"])]
            was_waiting = (r.s0 == "Waiting") or ("Waiting" in stored)
            if was_waiting and r.ge_delay == 1:
                ctx.ob("R3" + tag, lab + "/playing-same-frame", "Playing" in stored or (r.final == "Ended" and r.ge_duration == 1),
                       "an animator that is Waiting with position >= delay starts Playing in the same frame (not one frame "
                       "later); stores: %s" % stored, site, trace_of(p), what="playing-delayed")
            if r.final == "Waiting":
                ctx.ob("R3" + tag, lab + "/waiting-only-before-delay", r.ge_delay == 0,
                       "a frame may leave the animator Waiting only if it has established position < delay (pos>=delay "
                       "decided: %s)" % r.ge_delay, site, trace_of(p), what="waiting-past-delay")
            if r.ge_duration == 1 and r.s0 != "Ended":
                ctx.ob("R3" + tag, lab + "/ended-same-frame", r.final == "Ended",
                       "position >= total duration => Ended in this frame; final state %s" % r.final, site, trace_of(p),
                       what="ended-delayed")
            if r.final != "Ended":
                # fail closed: a frame may leave the animator un-ended only if it has established position < duration
                ctx.ob("R3" + tag, lab + "/not-ended-only-before-duration", r.ge_duration == 0,
                       "a frame may leave the animator in %s only if it has established position < total duration "
                       "(pos>=duration decided: %s)" % (r.final, r.ge_duration), site, trace_of(p), what="end-test-missing")
            if r.ge_duration == 0:
                ctx.ob("R3" + tag, lab + "/never-ended-early", "Ended" not in stored,
                       "Ended must not be stored while position < total duration", site, trace_of(p), what="ended-early")
            # R4: Ended => terminal values applied (F5)
            if "Ended" in stored:
                ok_upd = False
                detail = "no Timeline::update in this row"
                if r.updates:
                    u = r.updates[0]
                    ok_upd = u["descs"][2] == r.pos_secs and r.found == "Ok"
                    detail = "update(%s)" % [show(d)[:60] for d in u["descs"]]
                if r.found == "Err":
                    ok_upd = True   # no target component to apply to
                    detail = "target component absent"
                ctx.ob("R4" + tag, lab + "/ended-applies-final-values", ok_upd,
                       "every frame that stores Ended must evaluate the timeline on the target at the current position, so "
                       "that the component holds the terminal values when Ended is reported; %s" % detail, site,
                       trace_of(p), what="ended-without-final-update")
            # R4b: while Playing, every frame evaluates the timeline (the component is never more than a frame old)
            if r.s0 == "Playing":
                oku = (len(r.updates) == 1 and r.found == "Ok") or r.found == "Err"
                ctx.ob("R4" + tag, lab + "/playing-evaluates-every-frame", oku,
                       "an animator that is Playing at the start of the frame evaluates its timeline on the target in that "
                       "frame - whatever the frame's delta - so the component is never more than one frame old; "
                       "%d update(s), target %s" % (len(r.updates), r.found), site, trace_of(p),
                       what="playing-frame-without-update")
            # updates use the frame's position and the entity's own component
            for u in r.updates:
                okq = r.get_mut and r.get_mut[0]["descs"][1] == r.entity and u["descs"][2] == r.pos_secs
                ctx.ob("R4" + tag, lab + "/update-args", bool(okq),
                       "the timeline is evaluated at this animator's position on this entity's component", site,
                       trace_of(p), what="update-args")
        # R5: events
        changed = bool(r.state_stores)
        ok_ev = (len(r.sends) == 1) == changed and len(r.sends) <= 1
        if ok_ev and r.sends:
            n_send += 1
            ev = r.sends[0]["descs"][1]
            okp = ev[0] == "agg" and ev[2] == EVENT
            if okp:
                d = dict(ev[4])
                vals = list(d.values())
                okp = r.entity in vals and any(x == r.final_term or (pse.unit_variant(x) and pse.unit_variant(x)[1] == r.final)
                                               for x in vals)
                last_store = max(e["seq"] for e in r.state_stores)
                okp = okp and (r.sends[0]["seq"] > last_store or pse.unit_variant(r.final_term) is not None)
            ok_ev = okp
        ctx.ob("R5" + tag, lab + "/events", ok_ev,
               "each frame that changes the state sends exactly one AnimationStateChanged(entity, final state of the frame), "
               "other frames none; %d event(s), state stores %d, payload %s"
               % (len(r.sends), len(r.state_stores), [show(e["descs"][1])[:160] for e in r.sends]), site, trace_of(p),
               what="event-wrong")
    ctx.floor("R3" + tag, "stores to Animator::state in animate", n_state, 3)
    ctx.floor("R5" + tag, "rows sending AnimationStateChanged", n_send, 2)
    ctx.floor("R0" + tag, "loop rows of animate", len(tab["rows"]), 6)


def rule_api(ctx, F, rule="R6"):
    R = roles(F)
    SELFC = ("M", ("param", 1))
    b = F.one(crate="bevy_mina", name="reset", impl_self_adt=ANIMATOR)
    eng = pse.Engine(F)
    ps = eng.run(b)
    ok = len(ps) == 1
    if ok:
        pos = eng.read_loc(ps[0], SELFC, (("field", R["pos"]),))
        st = eng.read_loc(ps[0], SELFC, (("field", R["state"]),))
        tl = eng.read_loc(ps[0], SELFC, (("field", R["timeline"]),))
        en = eng.read_loc(ps[0], SELFC, (("field", R["enabled"]),))
        ok = pse.is_const(pos) and "Duration::ZERO" in str(pos[2]) and pse.unit_variant(st) and pse.unit_variant(st)[1] == "None" \
            and tl == ("field", ("deref", ("param", 1)), R["timeline"]) and en == ("field", ("deref", ("param", 1)), R["enabled"])
    ctx.ob(rule, "Animator::reset", ok, "reset must store (ZERO, None) and nothing else", b["span"], what="reset-wrong")
    b = F.one(crate="bevy_mina", name="set_timeline", impl_self_adt=ANIMATOR)
    ps = pse.Engine(F).run(b)
    ok = len([p for p in ps if p.outcome == "return"]) == 1
    if ok:
        p = [p for p in ps if p.outcome == "return"][0]
        for role in ("pos", "state", "enabled"):
            ok = ok and eng.read_loc(p, SELFC, (("field", R[role]),)) == ("field", ("deref", ("param", 1)), R[role])
        tl = eng.read_loc(p, SELFC, (("field", R["timeline"]),))
        ok = ok and tl[0] == "agg" and tl[3] == "Some"
    ctx.ob(rule, "Animator::set_timeline", ok, "set_timeline must store only the timeline", b["span"], what="set-timeline-wrong")
    # plugin: registers the event type and animate::<T> in Update
    pb = F.one(crate="bevy_mina", name="build", impl_trait="bevy_app::plugin::Plugin")
    ps = pse.Engine(F, inline=lambda fn, bb: False).run(pb)
    ok = len(ps) == 1
    if ok:
        cs = calls(ps[0], lambda e: True)
        ev = [e for e in cs if e["fn"]["name"] == "add_event" and EVENT in " ".join(e["fn"]["substs"])]
        sy = [e for e in cs if e["fn"]["name"] == "add_systems" and any("animate" in show(d) for d in e["descs"])
              and any("Update" in show(d) for d in e["descs"])]
        ok = len(ev) == 1 and len(sy) == 1
    ctx.ob(rule, "AnimationPlugin::build", ok, "the plugin must register AnimationStateChanged and run animate::<T> in Update",
           pb["span"], what="plugin-registration")


def _single_return(F, **kw):
    b = F.one(**kw)
    ps = [p for p in pse.Engine(F).run(b) if p.outcome == "return"]
    return b, (ps[0] if len(ps) == 1 else None), ps


def _is_insert(e, mapref, key, value_pred):
    return e["fn"].get("name") == "insert" and "HashMap" in e["callee"] and e["descs"][0] == mapref and \
        e["descs"][1] == key and value_pred(e["descs"][2])


def _boxed(param):
    return lambda v: v == ("call", "alloc::boxed::Box::<T>::new", (param,))


def rule_constructors(ctx, F, rule="R7"):
    """every way of creating an Animator starts the history the property quantifies over in the same place: enabled,
    position zero, state None, the given timeline (or none); as_disabled only clears `enabled`; state() reports the state"""
    R = roles(F)
    zero = lambda v: pse.is_const(v) and "Duration::ZERO" in str(v[2])
    none_state = lambda v: pse.unit_variant(v) is not None and pse.unit_variant(v)[1] == "None"
    for nm, kw, tl_ok in (
            ("Animator::new", dict(crate="bevy_mina", name="new", impl_self_adt=ANIMATOR),
             lambda v: v[0] == "agg" and v[3] == "None"),
            ("Animator::default", dict(crate="bevy_mina", name="default", impl_self_adt=ANIMATOR),
             lambda v: v[0] == "agg" and v[3] == "None"),
            ("Animator::with_timeline", dict(crate="bevy_mina", name="with_timeline", impl_self_adt=ANIMATOR),
             lambda v: v[0] == "agg" and v[3] == "Some" and _boxed(("param", 1))(v[4][0][1]))):
        b, p, ps = _single_return(F, **kw)
        ok = p is not None and p.ret[0] == "agg" and p.ret[2] == ANIMATOR
        if ok:
            f = dict(p.ret[4])
            ok = f[R["enabled"]] == pse.mk_bool(True) and zero(f[R["pos"]]) and none_state(f[R["state"]]) and tl_ok(f[R["timeline"]])
        ctx.ob(rule, nm, ok, "%s must create (enabled, position ZERO, state None, %s); summary %s"
               % (nm, "the given timeline" if "with" in nm else "no timeline", [show(q.ret)[:200] for q in ps]), b["span"],
               what="constructor-wrong")
    b, p, ps = _single_return(F, crate="bevy_mina", name="as_disabled", impl_self_adt=ANIMATOR)
    from rules import c03
    ch = c03._changed_fields(p.ret, ("param", 1)) if p is not None else None
    ctx.ob(rule, "Animator::as_disabled", ch == {R["enabled"]: pse.mk_bool(False)},
           "as_disabled must clear `enabled` and nothing else; changes %s" % ({k: show(v) for k, v in (ch or {}).items()}),
           b["span"], what="constructor-wrong")
    b, p, ps = _single_return(F, crate="bevy_mina", name="state", impl_self_adt=ANIMATOR)
    ctx.ob(rule, "Animator::state", p is not None and p.ret == ("field", ("deref", ("param", 1)), R["state"]),
           "state() must report the state field", b["span"], what="getter-wrong")
    b, p, ps = _single_return(F, crate="bevy_mina", name="new", impl_self_adt=EVENT)
    ok = p is not None and p.ret[0] == "agg" and sorted(v for _, v in p.ret[4]) == sorted([("param", 1), ("param", 2)]) and \
        dict(p.ret[4]).get("entity") == ("param", 1)
    ctx.ob(rule, "AnimationStateChanged::new", ok, "the event carries (entity, state) as given", b["span"], what="constructor-wrong")


def check(ctx):
    F = ctx.facts
    tab = build(ctx, F)
    rules(ctx, tab)
    rule_api(ctx, F)
    rule_constructors(ctx, F)
    ctx.notes.append("not decided: 'equals the timeline at a position at most one frame old while Playing' as a value statement; "
                     "scheduling inside bevy")
    ctx.assumptions += ["bevy Mut<T>/Res<T> deref to the component / resource", "Query::get_mut(entity) yields the entity's component",
                        "Timeline::duration is INFINITY for infinitely repeating timelines (C03/R4, C07/R2), so pos >= duration never holds for them"]
