"""C08 - properties a timeline does not animate are never touched (DESIGN.md section 5, C08)."""
from rules import derive_rules as D
from rules import c01, c10, c12
import pse
from pse import show
from rulelib import trace_of


def check(ctx):
    F = ctx.facts
    n = 0
    for s in D.collect(ctx):
        if s.sibling:
            continue
        n += 1
        # R1: write set of generated update, dominated by the Some arm of the same-named sub-timeline; R4: #[animate] filter
        D.rule_update(ctx, s, rule_wiring="R1", rule_touch="R1", rule_pure="R1")
        if s.meta is not None:
            kd = s.F.adts.get(s.prefix + s.target + "KeyframeData")
            got = sorted(f["name"] for f in kd["variants"][0]["fields"]) if kd else None
            ctx.ob("R4", s.label + "/animated-set", got == sorted(s.animated),
                   "the animated field set must be exactly the #[animate]-marked fields (all fields when none is marked): "
                   "expected %s, generated %s" % (sorted(s.animated), got), what="animate-filter-wrong")
            unanimated = [f for f in s.target_fields if f not in s.animated]
            ctx.extra.setdefault("unanimated_fields_checked", 0)
            ctx.extra["unanimated_fields_checked"] += len(unanimated)
    ctx.floor("R1", "derive uses analysed", n, 10 if ctx.tier == "quick" else 100)
    # R2: no data => empty sub-timeline => value_at returns None before touching anything
    c01.rule_split(ctx, F, "R2")
    body, paths = c01.value_at_rows(ctx, F)
    fl = c01.st_fields(F)
    empt = [p for p in paths if any(t[0] == "bin" and t[1] == "Eq" and t[2] == ("len", ("field", c01.SELF, fl["imap"]))
                                    and v == 1 for (t, v, s) in p.conds)]
    ok = len(empt) == 1 and empt[0].ret[0] == "agg" and empt[0].ret[3] == "None" and len(empt[0].conds) == 1 and \
        not [e for e in empt[0].events if e["kind"] in ("call", "store")]
    ctx.ob("R2", "value_at/empty-sub-timeline", ok,
           "an empty sub-timeline must yield None at once (first test, no other work)", body["span"], what="empty-not-none")
    # R3: prepare_frame returns None for an empty boundary table before calling the time scale
    c10.rules_prepare_frame(ctx, "R3")
    # R5: merged update has no effect besides its components' update
    c12.check_loop_method(ctx, F, "R5", "update", mutable=False)
    # R7: a property without data gets an empty sub-timeline only if the generated build hands the builder's keyframes to the
    # splitter as they are - one sub-timeline per animated field, built from the arguments' own keyframe vector (C17/G4)
    D.rule_wiring(ctx, "R7")
    # R6: in a state animator the values are written only by Timeline::update of the current state's timeline (so a property
    # that timeline does not animate keeps what earlier states left in it): advance's summary and the animator's state
    # fields (C06/R1-R2), the writers of each field (C05/R8)
    from rules import c05, c06, animator_table
    before, nn = len(ctx.obs), len(ctx.notes)
    c06.check(ctx)
    c05.check_writers(ctx, F, animator_table.roles_of(F))
    del ctx.notes[nn:]
    for o in ctx.obs[before:]:
        o["key"] = o["key"].replace("C08/%s/" % o["rule"], "C08/R6/%s/" % o["rule"].lower(), 1)
        o["rule"] = "R6"
    ctx.notes.append("not decided: nothing material; the witness family bounds 'all struct shapes'")


def control_shape(F):
    """the hand-written, deliberately wrong 'generated' timeline of witness/controls.rs"""
    s = D.Shape()
    s.F = F
    s.crate = "witness_controls"
    s.prefix = "witness_controls::gen::"
    s.label = "control:gen::Ctl"
    s.meta = None
    s.animated = ["x", "y"]
    s.types = {"x": "f32", "y": "f32"}
    s.target = "Ctl"
    s.target_fields = ["x", "y", "other"]
    s.vis = None
    s.sibling = False
    return s


def controls(ctx, F):
    D.rule_update(ctx, control_shape(F), rule_wiring="R1", rule_touch="R1", rule_pure="R1")
    return [("R1", "writes-unanimated-field", "hand-written update that overwrites a field which is not animated")]
