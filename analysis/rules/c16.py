"""C16 - animator! produces exactly the animator the builder API would (DESIGN.md section 5, C16)."""
import witness
import tv
import pse
from pse import show
from rules import c15

PARSER_CRATE = "mina_macros"


def rule_tv(ctx, rule="R1"):
    w = witness.load(ctx, "animator")
    F = w["facts"]
    meta = w["meta"]["animator"]
    for e in [e for e in w["errors"] if e["target"] == "witness_animator"]:
        ctx.ob(rule, "witness-compiles/%s:%s" % (e["file"], e["line"]), False,
               "a well-formed animator! block (or its builder twin) is rejected by the compiler: %s" % e["message"],
               "%s:%s" % (e["file"], e["line"]), what="well-formed-block-rejected")
    if F is None or "witness_animator" in w["missing"]:
        ctx.ob(rule, "witness-compiles", False, "witness-animator did not compile; no translation validation possible",
               what="no-witness")
        return set()
    programs = 0
    prods = set()
    samples = []
    for m in meta:
        try:
            bm = F.one(crate="witness_animator", name=m["name"] + "_macro")
            br = F.one(crate="witness_animator", name=m["name"] + "_ref")
        except Exception as ex:
            ctx.ob(rule, "pair/" + m["name"], False, "pair not found: %s" % ex, what="anchor-lost")
            continue
        em, pm = tv.summarize(F, bm)
        er, pr = tv.summarize(F, br)
        ctx.count_paths(pm, bm)
        ctx.count_paths(pr, br)
        programs += 1
        prods |= set(m["prods"])
        pairs = tv.pair_paths(pm, pr)
        if pairs is None:
            ctx.ob(rule, "pair/" + m["name"], False, "macro expansion and builder chain do not take the same paths through the "
                   "builder code: %s" % m["macro"], bm["span"], what="not-a-builder-chain")
            continue
        diffs = {}
        ok = True
        rm = rr = None
        for (xm, xr) in pairs:
            rm, rr = tv.animator_record(xm.ret), tv.animator_record(xr.ret)
            cm = {k: v for k, v in rm.items() if k != "order"}
            cr = {k: v for k, v in rr.items() if k != "order"}
            # same state listed twice: the later `on` wins on both sides (dict semantics); order of distinct states is irrelevant
            ok = tv.same(cm, cr, diffs, "animator") and ok
        ctx.ob(rule, "pair/%s" % m["name"], ok,
               "macro: %s | documented reading: %s | differences: %s" % (m["macro"], m["ref"], diffs.get("diff", [])[:4]),
               bm["span"], what="macro-differs-from-builder")
        if len(samples) < 4:
            samples.append({"macro": m["macro"], "initial_state": show(rm["initial_state"]) if rm.get("initial_state") else None,
                            "initial_values": show(rm["initial_values"]) if rm.get("initial_values") else None,
                            "states": sorted(rm.get("on", {}))})
    ctx.extra["programs"] = programs
    ctx.extra["disagreements_checked"] = programs
    ctx.extra["productions_covered"] = sorted(prods)
    ctx.extra["tv_samples"] = samples
    ctx.floor(rule, "animator! / builder pairs validated", programs, 10 if ctx.tier == "quick" else 60)
    return prods


KNOWN = {
    "syn::token::Default": "default clause",
    "syn::token::Comma": "default(state, values)",
    "syn::token::Brace": "default:inline",
    "syn::token::Or": "arm:A|B",
    "syn::token::FatArrow": "=>",
}


def rule_grammar(ctx, prods, rule="R2"):
    F = ctx.facts
    n = 0
    peeks = {}
    for name in ("AnimatorInput", "AnimatorDefaults", "AnimatorDefaultValues", "AnimatorStateMapping"):
        bs = [b for b in F.find(crate=PARSER_CRATE, name="parse", impl_trait="syn::parse::Parse")
              if b.get("impl_self", "").endswith("::" + name)]
        if len(bs) != 1:
            ctx.lost(rule, "parser/" + name, "Parse impl for %s" % name)
            continue
        n += 1
        for tok in c15.peeks_of(F, bs[0]):
            peeks.setdefault(c15.norm_tok(tok), set()).add(name)
    ctx.extra["parser_peeks"] = {k: sorted(v) for k, v in peeks.items()}
    for tok, where in sorted(peeks.items()):
        ctx.ob(rule, "peek/%s" % tok, tok in KNOWN,
               "the animator parser has an alternative (%s in %s) the witness generator has no reading for" % (tok, sorted(where)),
               what="unvalidated-production")
    ctx.floor(rule, "animator parser impls", n, 4)
    for p in ("default:none", "default:state", "default:inline", "default:expr", "arm:single", "arm:merged", "arm:A|B",
              "values:default"):
        ctx.ob(rule, "covered/" + p, p in prods, "production %s is exercised by no witness block" % p,
               what="production-not-covered")


def check(ctx):
    prods = rule_tv(ctx, "R1")
    rule_grammar(ctx, prods, "R2")
    # the arms' timelines are written by the same emission code as timeline!: positions, durations, delays, counts (C15/R5)
    from rules import c15
    c15.rule_emitted_numbers(ctx, "R3")
    ctx.notes.append("'behaves identically over any history' follows from equal builder inputs: the builder is deterministic "
                     "code (C05/R4). Not decided: blocks outside the corpus.")
    ctx.assumptions += ["the generator's encoding of the documented reading (witness/gen.py)",
                        "a built timeline and its builder are interchangeable TimelineOrBuilder values (C17/G9)"]


def controls(ctx, F):
    bm = F.one(crate="witness_controls", name="ctl_animator_macro")
    br = F.one(crate="witness_controls", name="ctl_animator_ref")
    em, pm = tv.summarize(F, bm)
    er, pr = tv.summarize(F, br)
    pairs = tv.pair_paths(pm, pr)
    ok = pairs is not None
    diffs = {}
    if ok:
        for (xm, xr) in pairs:
            rm, rr = tv.animator_record(xm.ret), tv.animator_record(xr.ret)
            cm = {k: v for k, v in rm.items() if k != "order"}
            cr = {k: v for k, v in rr.items() if k != "order"}
            ok = tv.same(cm, cr, diffs, "animator") and ok
    ctx.ob("R1", "control/pair", ok, "control pair differs: %s" % diffs.get("diff", [])[:2], what="macro-differs-from-builder")
    return [("R1", "macro-differs-from-builder", "an animator! block and a builder chain that omits one state")]
