"""C13 - easing curves: table, internal consistency, exact end points, the right function of x."""
import struct
from decimal import Decimal
from rulelib import trace_of, calls, const_f, call_is
import pse
from pse import show, subterms

EASING = "mina_core::easing::Easing"
EF = "mina_core::easing::EasingFunction"
CBE = "mina_core::easing::CubicBezierEasing"

# Published control points: CSS Easing Functions Level 1 (ease, ease-in, ease-out, ease-in-out) and
# easings.net (the other 24).
PUBLISHED = {
    "Ease": ("0.25", "0.1", "0.25", "1.0"), "In": ("0.42", "0.0", "1.0", "1.0"),
    "Out": ("0.0", "0.0", "0.58", "1.0"), "InOut": ("0.42", "0.0", "0.58", "1.0"),
    "InSine": ("0.12", "0.0", "0.39", "0.0"), "OutSine": ("0.61", "1.0", "0.88", "1.0"),
    "InOutSine": ("0.37", "0.0", "0.63", "1.0"),
    "InQuad": ("0.11", "0.0", "0.5", "0.0"), "OutQuad": ("0.5", "1.0", "0.89", "1.0"),
    "InOutQuad": ("0.45", "0.0", "0.55", "1.0"),
    "InCubic": ("0.32", "0.0", "0.67", "0.0"), "OutCubic": ("0.33", "1.0", "0.68", "1.0"),
    "InOutCubic": ("0.65", "0.0", "0.35", "1.0"),
    "InQuart": ("0.5", "0.0", "0.75", "0.0"), "OutQuart": ("0.25", "1.0", "0.5", "1.0"),
    "InOutQuart": ("0.76", "0.0", "0.24", "1.0"),
    "InQuint": ("0.64", "0.0", "0.78", "0.0"), "OutQuint": ("0.22", "1.0", "0.36", "1.0"),
    "InOutQuint": ("0.83", "0.0", "0.17", "1.0"),
    "InExpo": ("0.7", "0.0", "0.84", "0.0"), "OutExpo": ("0.16", "1.0", "0.3", "1.0"),
    "InOutExpo": ("0.87", "0.0", "0.13", "1.0"),
    "InCirc": ("0.55", "0.0", "1.0", "0.45"), "OutCirc": ("0.0", "0.55", "0.45", "1.0"),
    "InOutCirc": ("0.85", "0.0", "0.15", "1.0"),
    "InBack": ("0.36", "0.0", "0.66", "-0.56"), "OutBack": ("0.34", "1.56", "0.64", "1.0"),
    "InOutBack": ("0.68", "-0.6", "0.32", "1.6"),
}
FAMILIES = ["", "Sine", "Quad", "Cubic", "Quart", "Quint", "Expo", "Circ", "Back"]
# lyon_geom::scalar::Scalar associated constants for f32 (lyon_geom 1.0.x, src/scalar.rs)
SCALAR_CONSTS = {"ZERO": 0.0, "ONE": 1.0, "TWO": 2.0, "THREE": 3.0, "FOUR": 4.0, "SIX": 6.0, "HALF": 0.5}


def f32(x):
    return struct.unpack("f", struct.pack("f", x))[0]


def f32_bits(s):
    return struct.unpack("I", struct.pack("f", float(s)))[0]


def point_xy(t):
    """(x, y) constant terms of a Point value (aggregate or constructor call)"""
    if t[0] == "agg":
        d = dict(t[4])
        if "x" in d and "y" in d:
            return d["x"], d["y"]
    if t[0] == "call" and t[1].endswith("::new") and len(t[2]) == 2:
        return t[2][0], t[2][1]
    return None


def segment_points(seg):
    """{from, ctrl1, ctrl2, to: (x, y)} of a CubicBezierSegment aggregate"""
    if seg[0] != "agg":
        return None
    d = dict(seg[4])
    out = {}
    for k in ("from", "ctrl1", "ctrl2", "to"):
        if k not in d:
            return None
        xy = point_xy(d[k])
        if xy is None:
            return None
        out[k] = xy
    return out


def eval_f32(t, x):
    """constant folding of a closed-form f32 value graph with the input symbol bound to x; None if not closed"""
    if t == ("param", 2):
        return x
    if pse.is_const(t):
        v = t[2]
        if isinstance(v, tuple) and v[0] == "f":
            return v[2]
        if isinstance(v, tuple) and v[0] == "s":
            for name, val in SCALAR_CONSTS.items():
                if str(v[1]).endswith("Scalar>::" + name):
                    return val
        return None
    if t[0] == "bin" and t[1] in ("Add", "Sub", "Mul", "Div"):
        a = eval_f32(t[2], x)
        b = eval_f32(t[3], x)
        if a is None or b is None:
            return None
        if t[1] == "Add":
            return f32(a + b)
        if t[1] == "Sub":
            return f32(a - b)
        if t[1] == "Mul":
            return f32(a * b)
        if b == 0:
            return None
        return f32(a / b)
    return None


def include_endpoints(ctx, rule):
    """C13/R1-R3 under another property's rule id"""
    before, nn = len(ctx.obs), len(ctx.notes)
    check(ctx, inversion=False)
    del ctx.notes[nn:]
    for o in ctx.obs[before:]:
        o["key"] = o["key"].replace("%s/%s/" % (ctx.prop, o["rule"]), "%s/%s/%s/" % (ctx.prop, rule, o["rule"].lower()), 1)
        o["rule"] = rule


def check(ctx, inversion=True):
    """inversion=False leaves out R4 (the x -> t inversion, known finding F7): what remains decides that every built-in
    easing is the identity or one Bezier segment from (0,0) to (1,1) evaluated at the caller's x, and that the evaluation
    maps 0 to 0 and 1 to 1 exactly - the part other properties (no jump at a blend, exact keyframe values) rest on"""
    F = ctx.facts
    calc = F.one(crate="mina_core", name="calc", impl_self_adt=EASING, impl_trait=EF)
    eng = pse.Engine(F, inline=lambda fn, b: fn.get("krate") not in ("lyon_geom",) and "lyon_geom::" not in b["path"])
    paths = eng.run(calc)
    ctx.count_paths(paths, calc)
    arms = {}
    for p in paths:
        var = None
        for (t, v, s) in p.conds:
            if t[0] == "discr" and t[1] == ("deref", ("param", 1)):
                names = {int(d): n for n, d in t[2]}
                var = names.get(v) if not isinstance(v, tuple) else None
        if var is None:
            ctx.ob("R1", "dispatch/unattributed-path", False, "a path of Easing::calc is not attributed to a variant",
                   calc["span"], trace_of(p), what="unattributed-arm")
            continue
        arms.setdefault(var, []).append(p)
    adt = F.adt(EASING)
    variants = [v["name"] for v in adt["variants"]]
    ctx.floor("R1", "variants of Easing", len(variants), 30)
    ctx.floor("R1", "arms of Easing::calc", len(arms), 30)
    curves = {}
    for v in variants:
        ps = arms.get(v, [])
        if len(ps) != 1 or ps[0].outcome != "return":
            ctx.ob("R1", "dispatch/%s" % v, False, "variant %s must have exactly one straight arm (found %d)" % (v, len(ps)),
                   calc["span"], what="arm-missing")
            continue
        p = ps[0]
        r = p.ret
        if v == "Linear":
            ctx.ob("R1", "dispatch/Linear", r == ("param", 2), "Linear must be the identity; returns %s" % show(r),
                   calc["span"], trace_of(p), what="linear-not-identity")
            continue
        if v == "Custom":
            ok = call_is(r, EF, "calc") and len(r[2]) == 2 and r[2][1] == ("param", 2) and \
                pse.contains(r[2][0], ("variant", ("deref", ("param", 1)), "Custom"))
            ctx.ob("R1", "dispatch/Custom", ok, "Custom(c) must be c.calc(x) with x unchanged; returns %s" % show(r),
                   calc["span"], trace_of(p), what="custom-not-used-as-given")
            continue
        ys = calls(p, lambda e: e["callee"].startswith("lyon_geom::cubic_bezier::CubicBezierSegment"))
        if len(ys) != 1:
            ctx.ob("R1", "dispatch/%s" % v, False, "arm %s does not evaluate exactly one Bezier segment" % v,
                   calc["span"], trace_of(p), what="arm-not-bezier")
            continue
        seg = ys[0]["descs"][0]
        seg = seg[1] if seg[0] == "&" else seg
        pts = segment_points(seg)
        if pts is None:
            ctx.ob("R1", "dispatch/%s" % v, False, "control points of %s are not constants: %s" % (v, show(seg)),
                   calc["span"], trace_of(p), what="control-points-not-constant")
            continue
        curves[v] = pts
        pub = PUBLISHED.get(v)
        if pub is None:
            ctx.ob("R1", "table/%s" % v, False, "built-in easing %s has no published definition in the rule's table" % v,
                   calc["span"], what="unknown-builtin")
            continue
        got = (pts["ctrl1"][0], pts["ctrl1"][1], pts["ctrl2"][0], pts["ctrl2"][1])
        for i, nm in enumerate(("x1", "y1", "x2", "y2")):
            g = got[i]
            okc = pse.is_const(g) and isinstance(g[2], tuple) and g[2][0] == "f" and g[2][1] == f32_bits(pub[i])
            ctx.ob("R1", "table/%s.%s" % (v, nm), okc,
                   "%s.%s must be %s (published cubic-bezier control point), is %s" % (v, nm, pub[i], show(g)),
                   calc["span"], what="control-point-differs")
        ends = (const_f(pts["from"][0]), const_f(pts["from"][1]), const_f(pts["to"][0]), const_f(pts["to"][1]))
        ctx.ob("R1", "endpoints/%s" % v, ends == (0.0, 0.0, 1.0, 1.0),
               "curve %s must run from (0,0) to (1,1); runs from (%s,%s) to (%s,%s)" % ((v,) + ends), calc["span"],
               what="segment-endpoints-wrong")
        # the x handed to the curve is the caller's x
        ctx.ob("R1", "argument/%s" % v, ys[0]["descs"][1] == ("param", 2) and r == ys[0]["result"],
               "arm %s must evaluate its curve at the caller's x and return that value unchanged" % v, calc["span"],
               trace_of(p), what="argument-or-result-changed")
    # constructor: parameters -> control points
    new = F.one(crate="mina_core", name="new", impl_self_adt=CBE)
    pn = pse.Engine(F, inline=lambda fn, b: True).run(new)
    ok = len(pn) == 1
    if ok:
        seg = dict(pn[0].ret[4]).get("segment") if pn[0].ret[0] == "agg" else None
        pts = segment_points(seg) if seg else None
        ok = pts is not None and pts["ctrl1"] == (("param", 1), ("param", 2)) and pts["ctrl2"] == (("param", 3), ("param", 4)) \
            and tuple(const_f(c) for c in pts["from"] + pts["to"]) == (0.0, 0.0, 1.0, 1.0)
    ctx.ob("R1", "constructor/CubicBezierEasing::new", ok,
           "new(x1,y1,x2,y2) must build the segment (0,0),(x1,y1),(x2,y2),(1,1)", new["span"], what="constructor-map-wrong")

    # R2: internal consistency in exact decimal arithmetic (independent of the embedded table)
    def dec(c):
        return Decimal(repr(f32(const_f(c)))) if const_f(c) is not None else None

    def shortest(c):
        # shortest round-trip decimal of the f32 constant
        x = const_f(c)
        for prec in range(1, 12):
            s = "%.*g" % (prec, x)
            if f32(float(s)) == f32(x):
                return Decimal(s)
        return Decimal(repr(x))

    def cp(v):
        p = curves[v]
        return tuple(shortest(c) for c in (p["ctrl1"][0], p["ctrl1"][1], p["ctrl2"][0], p["ctrl2"][1]))

    one = Decimal(1)
    for fam in FAMILIES:
        a, b, c = "In" + fam, "Out" + fam, "InOut" + fam
        if a in curves and b in curves:
            x1, y1, x2, y2 = cp(a)
            ctx.ob("R2", "mirror/%s-%s" % (a, b), cp(b) == (one - x2, one - y2, one - x1, one - y1),
                   "%s and %s must be point mirrors: %s vs %s" % (a, b, cp(a), cp(b)), calc["span"],
                   what="in-out-not-mirrored")
        else:
            ctx.ob("R2", "mirror/%s-%s" % (a, b), False, "pair %s/%s not found" % (a, b), calc["span"], what="anchor-lost")
        if c in curves:
            x1, y1, x2, y2 = cp(c)
            ctx.ob("R2", "self-mirror/%s" % c, cp(c) == (one - x2, one - y2, one - x1, one - y1),
                   "%s must be its own point mirror: %s" % (c, cp(c)), calc["span"], what="inout-not-self-mirrored")
        else:
            ctx.ob("R2", "self-mirror/%s" % c, False, "%s not found" % c, calc["span"], what="anchor-lost")
    for v in sorted(curves):
        x1, y1, x2, y2 = cp(v)
        ctx.ob("R2", "x-range/%s" % v, 0 <= x1 <= 1 and 0 <= x2 <= 1,
               "%s: x1, x2 must lie in [0,1] for the curve to be a function of x (%s, %s)" % (v, x1, x2),
               calc["span"], what="x-control-out-of-range")
        if "Back" not in v:
            ctx.ob("R2", "monotone-range/%s" % v, 0 <= y1 <= y2 <= 1,
                   "%s: 0 <= y1 <= y2 <= 1 makes the Bernstein coefficients of y and y' non-negative (range [0,1], "
                   "non-decreasing); got y1=%s y2=%s" % (v, y1, y2), calc["span"], what="not-monotone-in-range")

    # R3: end points exact - constant folding in f32 of the inlined evaluation at x = 0 and x = 1
    eng3 = pse.Engine(F, inline=lambda fn, b: True)
    full = eng3.run(calc)
    ctx.count_paths(full, calc)
    n3 = 0
    for p in full:
        var = None
        for (t, v, s) in p.conds:
            if t[0] == "discr" and t[1] == ("deref", ("param", 1)) and not isinstance(v, tuple):
                var = {int(d): n for n, d in t[2]}.get(v)
        if var in (None, "Custom"):
            continue
        e0, e1 = eval_f32(p.ret, 0.0), eval_f32(p.ret, 1.0)
        if e0 is None or e1 is None:
            ctx.notes.append("R3 not decided for %s: evaluation is not a closed form over constants (%s)"
                             % (var, show(p.ret)[:120]))
            continue
        n3 += 1
        ctx.ob("R3", "exact-endpoints/%s" % var, e0 == 0.0 and e1 == 1.0,
               "%s must map 0 to 0 and 1 to 1 exactly; constant folding in f32 gives %r and %r" % (var, e0, e1),
               calc["span"], what="endpoint-not-exact")
    ctx.extra["endpoints_decided_for"] = n3

    if not inversion:
        return
    # R4: the curve parameter must come from an x -> t inversion, not be the horizontal input itself (F7)
    cbcalc = F.one(crate="mina_core", name="calc", impl_self_adt=CBE, impl_trait=EF)
    eng4 = pse.Engine(F, inline=lambda fn, b: fn.get("krate") != "lyon_geom")
    for p in eng4.run(cbcalc):
        sinks = calls(p, lambda e: e["callee"].startswith("lyon_geom::cubic_bezier::CubicBezierSegment")
                      and e["fn"]["name"] in ("x", "y", "sample", "dx", "dy", "derivative"))
        for e in sinks:
            direct = e["descs"][1] == ("param", 2)
            ctx.ob("R4", "<CubicBezierEasing as EasingFunction>::calc/%s" % e["fn"]["name"], not direct,
                   "CubicBezierSegment::%s(t) samples the curve at *parameter* t; calc(x) passes the horizontal "
                   "position x straight in (no solve_t_for_x), so the result is B_y(x) instead of the timing "
                   "function y(x) (e.g. Out at x=0.25: 0.15625 instead of ~0.378)" % e["fn"]["name"],
                   e["site"], trace_of(p), what="curve-parameter-is-horizontal-input")
    ctx.notes.append("not decided: agreement with the Bezier timing function to float rounding (needs a numeric solver)")
