"""C06 - frame-rate independence: only total elapsed time matters (DESIGN.md section 5, C06)."""
from rules import animator_table as T
from rulelib import trace_of, calls, is_trait_call, mentions
import pse
from pse import show

# exact elapsed-time conversions (Appendix C): each is the nearest-representable Duration of x
EXACT_CONV = {
    "core::time::Duration::from_secs_f32": "nearest Duration of x (panics when out of range)",
    "core::time::Duration::try_from_secs_f32": "same, as a Result",
    "core::time::Duration::from_secs_f64": "accepted with an exact f32->f64 cast of x",
}
ACCUMULATE = {
    "<core::time::Duration as core::ops::arith::AddAssign>::add_assign": "old + g",
    "<core::time::Duration as core::ops::arith::Add>::add": "old + g",
    "core::time::Duration::saturating_add": "min(old + g, MAX)",
}


def conv_of_elapsed(t, elapsed):
    """is t an exact conversion of the elapsed-seconds parameter (or the saturated maximum)?"""
    if t[0] == "call" and t[1] in EXACT_CONV:
        a = t[2][0]
        if a == elapsed:
            return "exact"
        if a[0] == "cast" and a[2] == elapsed and a[1] == "FloatToFloat":
            return "exact"
    if pse.is_const(t) and "Duration::MAX" in str(t[2]):
        return "saturated"
    return None


def saturation_guard(t, elapsed):
    """branch literal `elapsed >= <bound>` / `<bound> <= elapsed` used to saturate the conversion"""
    if t[0] == "bin" and t[1] in ("Le", "Lt"):
        a, b = t[2], t[3]
        if b == elapsed and not mentions(a, lambda x: x == elapsed):
            return True
        if a == elapsed and not mentions(b, lambda x: x == elapsed):
            return True
    return False


def check(ctx, adt=T.ANIM_ADT, F=None):
    F = F or ctx.facts
    R = T.roles_of(F, adt)
    body = F.one(name="advance", impl_self_adt=adt, impl_trait=T.SA_TRAIT)
    eng = T.engine(F)
    paths = eng.run(body)
    ctx.count_paths(paths, body)
    cell = ("M", ("param", 1))
    elapsed = ("param", 2)
    init = lambda role: ("field", ("deref", ("param", 1)), R[role])
    inst = body["path"]
    n = 0
    for p in paths:
        if p.outcome == "panic":
            # the conversion's own range failure (negative / NaN / too large) - C20 audits those
            continue
        n += 1
        fin = {role: eng.read_loc(p, cell, (("field", R[role]),)) for role in R}
        # R1: accumulator := old + g(elapsed), g an exact conversion; nothing else depends on elapsed
        t = fin["time"]
        form = None
        if t[0] == "after" and t[1][0] == "call" and t[1][1] in ACCUMULATE and t[3] == init("time"):
            g = t[1][2][1]
            form = conv_of_elapsed(g, elapsed)
        elif t[0] == "call" and t[1] in ACCUMULATE and t[2][0] == init("time"):
            form = conv_of_elapsed(t[2][1], elapsed)
        ctx.ob("R1", inst + "/accumulate[%s]" % ("+".join(str(v) for (_, v, _) in p.conds) or "-"), form is not None,
               "advance must add an exact conversion of the elapsed time to the accumulated Duration "
               "(old + g(elapsed)); state_duration becomes %s" % show(t), body["span"], trace_of(p),
               what="accumulator-not-old-plus-exact-elapsed")
        bad_branches = [show(c) for (c, v, s) in p.conds
                        if mentions(c, lambda x: x == elapsed) and not saturation_guard(c, elapsed)]
        ctx.ob("R1", inst + "/no-branch-on-elapsed[%d]" % n, not bad_branches,
               "advance must not branch on the size of the step (other than the conversion's own saturation): %s"
               % bad_branches, body["span"], trace_of(p), what="branches-on-step-size")
        for role in ("timelines", "current_state", "pause"):
            ctx.ob("R1", inst + "/untouched[%s,%d]" % (role, n), fin[role] == init(role),
                   "advance must not write %s; at exit it is %s" % (R[role], show(fin[role])), body["span"],
                   trace_of(p), what="advance-writes-" + role)
        # R2: values recomputed from the absolute accumulated time
        ups = calls(p, lambda e: is_trait_call(e, T.TL_TRAIT, "update"))
        hd = T.entry_decision(p, R, init("current_state"))
        has = [] if hd is None else [hd]
        if ups:
            u = ups[0]
            a = u["descs"][2]
            ok = len(ups) == 1 and a in T.as_seconds(fin["time"]) and \
                u["args"][1] == ("ref", cell, (("field", R["current_values"]),), True) and \
                u["args"][0][0] == "ref" and ("entry", init("current_state")) in u["args"][0][2]
            ctx.ob("R2", inst + "/absolute-time[%d]" % n, ok,
                   "values must be recomputed by Timeline::update(current timeline, &mut current_values, "
                   "state_duration.as_secs_f32()) - the absolute time, not the step; got %s"
                   % [show(d) for d in u["descs"]], body["span"], trace_of(p), what="update-not-at-absolute-time")
        else:
            ctx.ob("R2", inst + "/no-timeline[%d]" % n, fin["current_values"] == init("current_values") and has == [0],
                   "without a timeline the values stay as they are", body["span"], trace_of(p),
                   what="values-touched-without-timeline")
    ctx.floor("R1", "advance paths", n, 2)
    # no counters / previous-time fields: exactly the five state fields (+ PhantomData)
    adt_ = F.adt(adt)
    fields = adt_["variants"][0]["fields"]
    extra = [f["name"] for f in fields if f["name"] not in R.values() and "PhantomData" not in f["ty"]]
    ctx.ob("R1", "animator-state/no-extra-fields", not extra,
           "the animator must carry no state besides (timelines, state, values, pause record, time): extra %s" % extra,
           adt_["span"], what="extra-state-fields")
    # R4: every evaluation of a timeline with keyframes writes its values - before the start, at any position and after the
    # end (an evaluation that is skipped leaves what the previous frame wrote: frame-rate dependence) (C10/R1)
    if adt == T.ANIM_ADT:
        from rules import c10
        c10.rules_prepare_frame(ctx, "R4")
    # R3: what advance evaluates is a merged timeline: it must apply every component on every evaluation, whatever the time
    # (a component skipped "because it has ended" leaves whatever the previous frame wrote) (C12/R1)
    if adt == T.ANIM_ADT:
        from rules import c12
        c12.check_loop_method(ctx, F, "R3", "update", mutable=False)
    ctx.notes.append("R3 (a generated timeline's update is a function of (timeline, time)) is C09/R1-R3")
    ctx.notes.append("not decided: the size of the f32->Duration rounding error of each step (allowed by the property)")


def controls(ctx, F):
    check(ctx, adt="witness_controls::anim::CtlAnimator", F=F)
    return [("R1", "accumulator-not-old-plus-exact-elapsed", "advance that clamps the step")]
