"""C04 - a state change never makes the animated values jump (DESIGN.md section 5, C04)."""
from rules import animator_table as T
from rules import c10


def check(ctx):
    tab = T.build(ctx)
    T.rules_c04(ctx, tab)
    # R7: a stale pause record makes a later resume jump, so the record must be rewritten whenever an animated state is
    # left for an un-animated one (the rows of C05/R1-R2)
    n0 = len(ctx.obs)
    T.rules_c05(ctx, tab)
    for o in ctx.obs[n0:]:
        o["key"] = o["key"].replace("C04/R1/", "C04/R7/").replace("C04/R2/", "C04/R7/")
        o["rule"] = "R7"
    # R6: override scope = shared truth tables of C10 (first forward pass only, frame 0 only)
    c10.rules_override_scope(ctx, prefix="R6")
    # the animator's timelines are merged timelines: the blend must reach every component (C12/R2)
    from rules import c09
    c09.rule_override(ctx, ctx.facts, "R6")      # the blended start frame carries exactly the values held at the switch
    from rules import c12
    c12.check_loop_method(ctx, ctx.facts, "R8", "start_with", mutable=True)
    # ... and, in a generated timeline, every animated property (C17/G6)
    from rules import derive_rules
    derive_rules.rule_blend_wiring(ctx, "R8")
    # the blended start frame is found at time 0 only if the boundary table the search runs on is sorted: keyframes sorted once,
    # by a total ascending comparator, stably, before anything is derived from their order (C11/R1-R2, R4)
    from rules import c11
    for bb in [x for x in c11.builders_of(ctx.facts, c11.TBA) if ctx.facts.body_unit[x["id"]][0] == "mina_core"]:
        c11.check_builder(ctx, ctx.facts, bb, "R10")
    c11.rule_append_only(ctx, ctx.facts, "R10")
    # the first evaluation after the switch reproduces the blended start value only if the easing maps 0 to exactly 0 and the
    # interpolation at 0 returns its first argument exactly (C13/R1-R3, C14/R1)
    from rules import c13, c14
    c13.include_endpoints(ctx, "R9")
    c14.rule_endpoints(ctx, ctx.facts, "R9")
    ctx.notes.append("not decided: equality of values over real histories (the rules decide the structure that makes the "
                     "first evaluation after a switch return the values held at the switch)")
    ctx.assumptions += ["MapLike::get/get_mut are projections to the entry stored under the key (trait contract; "
                        "the EnumMap impl is checked in C05/R7)", "Clone for the state type is a faithful copy",
                        "PartialEq for the state type is an equivalence"]


CTL_ADT = "witness_controls::anim::CtlAnimator"


def controls(ctx, F):
    tab = T.build(ctx, facts=F, adt_path=CTL_ADT, crate="witness_controls")
    T.rules_c04(ctx, tab)
    return [("R5", "stale-pause-record-kept", "animator copy that never discards the pause record")]
