"""C05 - blend / pause / resume rules for any history (DESIGN.md section 5, C05)."""
from rules import animator_table as T
from rulelib import field_roles, field_writers, trace_of, calls, is_trait_call, is_none
import pse
from pse import show

BUILDER = "mina_core::animator::StateAnimatorBuilder"


def check(ctx):
    F = ctx.facts
    tab = T.build(ctx)
    T.rules_c05(ctx, tab)
    # R3 = C04/R5 (entering another animated state discards the record)
    sub = type("S", (), {})()
    before = len(ctx.obs)
    T.rules_c04(ctx, tab, tag="")
    # C04/R5 (discard the record) is C05/R3; the other transition rules of C04 (same state = no effect, state and time
    # reset, blend from the live values, one evaluation at the new time, resume from the record) are what "evaluated at
    # the time spent in that state, started from the values held when the state was entered" rests on: C05/R10
    kept = []
    for o in ctx.obs[before:]:
        o = dict(o)
        if o["rule"] == "R5":
            o["key"] = o["key"].replace("C05/R5/", "C05/R3/")
            o["rule"] = "R3"
        else:
            o["key"] = o["key"].replace("C05/%s/" % o["rule"], "C05/R10/%s/" % o["rule"].lower(), 1)
            o["rule"] = "R10"
        kept.append(o)
    ctx.obs[before:] = kept
    R = tab["roles"]
    check_ctor(ctx, F, R)
    check_getters(ctx, F, R)
    check_maplike_impl(ctx, F)
    check_writers(ctx, F, R)
    # "a later return blends afresh": a blend replaces any earlier start override instead of merging with it, and never
    # touches the configured frames (C09/R4)
    from rules import c09
    c09.rule_override(ctx, F, "R9")
    # "current_values equals the timeline evaluated at the time spent in that state": advance accumulates exactly the
    # elapsed time and re-evaluates once at the new time (C06/R1-R2)
    from rules import c06
    before = len(ctx.obs)
    notes = len(ctx.notes)
    c06.check(ctx)
    del ctx.notes[notes:]
    for o in ctx.obs[before:]:
        o["key"] = o["key"].replace("C05/%s/" % o["rule"], "C05/R11/%s/" % o["rule"].lower(), 1)
        o["rule"] = "R11"
    ctx.notes.append("not decided: the values themselves (float results of timeline evaluation)")
    ctx.assumptions += ["the decision table is the complete transition relation of the animator: R8 shows no other "
                        "function writes its fields", "MapLike contract as in C04"]


def check_ctor(ctx, F, R):
    new = F.one(crate="mina_core", name="new", impl_self_adt=T.ANIM_ADT)
    eng = T.engine(F)
    paths = eng.run(new)
    ctx.count_paths(paths, new)
    blended = 0
    for p in paths:
        if p.outcome != "return":
            continue
        r = p.ret
        ok = r[0] == "agg" and r[2] == T.ANIM_ADT
        f = dict(r[4]) if ok else {}
        tl = f.get(R["timelines"])
        tl_base = tl
        while tl_base is not None and tl_base[0] == "upd":
            tl_base = tl_base[1]
        okf = ok and tl_base == ("param", 1) and f.get(R["current_state"]) == ("param", 2) \
            and f.get(R["current_values"]) == ("param", 3) and is_none(f.get(R["pause"])) \
            and T.is_zero_time(f.get(R["time"]))
        ctx.ob("R4", "new/fields", okf,
               "constructor must store (timelines, initial_state, initial_values, None, ZERO); got %s" % show(r),
               new["span"], trace_of(p), what="ctor-fields-wrong")
        st = calls(p, lambda e: is_trait_call(e, T.TL_TRAIT, "start_with"))
        has = p.known.get(("discr", ("optref-of",) + _tl_loc(p, R), pse.OPT_VARIANTS))
        if st:
            blended += 1
            a = st[0]
            okb = len(st) == 1 and a["descs"][1] == ("&", ("param", 3)) and \
                a["args"][0][0] == "ref" and ("entry", ("param", 2)) in a["args"][0][2]
            ctx.ob("R4", "new/initial-blend", okb,
                   "construction must blend the initial state's timeline from the initial values: "
                   "start_with(timeline[initial_state], &initial_values); got %s" % [show(d) for d in a["descs"]],
                   new["span"], trace_of(p), what="initial-blend-wrong")
    ctx.ob("R4", "new/initial-blend-exists", blended >= 1,
           "the constructor must blend the initial state when it has a timeline", new["span"], what="no-initial-blend")
    # builder: build -> new(self.timelines, self.initial_state, self.initial_values); setters store their argument
    badt = F.adt(BUILDER)
    BR = field_roles(badt, {
        "state": lambda t: t == "State",
        "values": lambda t: "Target" in t and "EnumMap" not in t,
        "timelines": lambda t: "EnumMap" in t,
    })
    build = F.one(crate="mina_core", name="build", impl_self_adt=BUILDER)
    eng = T.engine(F, inline=lambda fn, body: body["name"] != "new")
    for p in eng.run(build):
        cs = calls(p, lambda e: e["fn"]["name"] == "new" and "MappedTimelineAnimator" in e["callee"])
        ok = len(cs) == 1 and tuple(cs[0]["descs"]) == (("field", ("param", 1), BR["timelines"]),
                                                        ("field", ("param", 1), BR["state"]),
                                                        ("field", ("param", 1), BR["values"])) \
            and p.ret == cs[0]["result"]
        ctx.ob("R4", "builder/build", ok,
               "build must hand (timelines, initial_state, initial_values) to the constructor in that order; calls: %s"
               % [[show(d) for d in c["descs"]] for c in cs], build["span"], trace_of(p), what="builder-build-wrong")
    for meth, role in (("from_state", "state"), ("from_values", "values")):
        b = F.one(crate="mina_core", name=meth, impl_self_adt=BUILDER)
        eng = T.engine(F)
        for p in eng.run(b):
            if p.outcome != "return":
                continue
            got = eng.proj_read(p, p.ret, ("field", BR[role]))
            others = [r2 for r2 in BR if r2 != role and eng.proj_read(p, p.ret, ("field", BR[r2]))
                      != ("field", ("param", 1), BR[r2])]
            ctx.ob("R4", "builder/" + meth, got == ("param", 2) and not others,
                   "%s must store its argument in the %s field and leave the others; result %s" % (meth, role, show(p.ret)),
                   b["span"], trace_of(p), what="builder-setter-wrong")
    b = F.one(crate="mina_core", name="on", impl_self_adt=BUILDER)
    eng = T.engine(F)
    for p in eng.run(b):
        if p.outcome != "return":
            continue
        # self.timelines[state] = Some(timeline.build())
        idx = calls(p, lambda e: e["fn"]["name"] == "index_mut")
        bld = calls(p, lambda e: e["fn"]["name"] == "build" and e["fn"].get("trait", "").endswith("TimelineOrBuilder"))
        ok = len(idx) == 1 and len(bld) == 1 and idx[0]["descs"][1] == ("param", 2) and bld[0]["descs"][0] == ("param", 3)
        if ok:
            # the slot returned by index_mut receives Some(build result)
            slot = ("M", idx[0]["result"])
            v = p.store.get(slot)
            ok = v is not None and v[0] == "agg" and v[3] == "Some" and v[4][0][1] == bld[0]["result"]
        ctx.ob("R4", "builder/on", ok,
               "on(state, timeline) must store Some(timeline.build()) under key `state`", b["span"], trace_of(p),
               what="builder-on-wrong")


def _tl_loc(p, R):
    return (("L", 0, 4), (("field", R["timelines"]), ("entry", ("param", 2))))


def check_getters(ctx, F, R):
    for meth, role in (("current_state", "current_state"), ("current_values", "current_values")):
        b = F.one(crate="mina_core", name=meth, impl_self_adt=T.ANIM_ADT, impl_trait=T.SA_TRAIT)
        eng = T.engine(F)
        paths = eng.run(b)
        ctx.count_paths(paths, b)
        ok = len(paths) == 1 and paths[0].ret == ("ref", ("M", ("param", 1)), (("field", R[role]),), False) \
            and not paths[0].events
        ctx.ob("R5", "getter/" + meth, ok, "%s must return a reference to the %s field; returns %s"
               % (meth, role, show(paths[0].ret) if paths else "?"), b["span"], what="getter-wrong")


def check_maplike_impl(ctx, F):
    """R7: the EnumMap implementation of MapLike is `self[key.clone()].as_ref()` / `.as_mut()`"""
    n = 0
    for meth, optm, idxm in (("get", "as_ref", "index"), ("get_mut", "as_mut", "index_mut")):
        bs = F.find(crate="mina_core", name=meth, impl_trait="mina_core::animator::MapLike")
        for b in bs:
            n += 1
            eng = T.engine(F, models={"core::option::Option::<T>::as_ref": lambda *a: None,
                                        "core::option::Option::<T>::as_mut": lambda *a: None})
            paths = eng.run(b)
            ctx.count_paths(paths, b)
            ok = len(paths) == 1
            if ok:
                r = paths[0].ret
                ok = r[0] == "call" and r[1].endswith("Option::<T>::" + optm)
                if ok:
                    inner = r[2][0]
                    inner = inner[1] if inner[0] in ("&", "&mut") else inner
                    ok = inner[0] == "deref" and inner[1][0] == "call" and inner[1][1].endswith("::" + idxm) and \
                        inner[1][2][0][1] == ("deref", ("param", 1)) and inner[1][2][1] == ("deref", ("param", 2))
            ctx.ob("R7", "maplike-impl/" + b["path"], ok,
                   "MapLike::%s for EnumMap must be self[key.clone()].%s(); summary %s"
                   % (meth, optm, show(paths[0].ret) if paths else "?"), b["span"], what="maplike-impl-wrong")
    ctx.floor("R7", "MapLike impl methods", n, 2)


TRANSITIONS = {"new", "set_state", "advance"}     # the functions whose summaries C04-C06 analyse completely
FORBIDDEN = {
    # role -> transition functions that must not write it (checked on their summaries by C04/C05/C06 as well)
    "current_state": {"advance"},
    "pause": {"advance"},
}


def check_writers(ctx, F, R):
    """no function other than the analysed transitions (and private helpers reachable only from them) writes a state field"""
    w = field_writers(F, T.ANIM_ADT)
    inv = {v: k for k, v in R.items()}
    # call graph among the animator's own functions
    own = {b["name"]: b for b in F.find(crate="mina_core", impl_self_adt=T.ANIM_ADT)}
    calls_of = {}
    for name, b in own.items():
        cs = set()
        for blk in b["blocks"]:
            t = blk["term"]
            if t["k"] == "call" and "fn" in t["func"]:
                cs.add(t["func"]["fn"]["name"])
        calls_of[name] = cs & set(own)
    reach = set(TRANSITIONS)
    work = list(TRANSITIONS)
    while work:
        x = work.pop()
        for c in calls_of.get(x, ()):
            if c not in reach:
                reach.add(c)
                work.append(c)
    others = {n for n in own if n not in TRANSITIONS}
    reach_other = set()
    work = [n for n in others if own[n].get("vis") == "pub" or own[n].get("impl_trait")]
    work = [n for n in work if n not in TRANSITIONS]
    seen = set(work)
    while work:
        x = work.pop()
        reach_other.add(x)
        for c in calls_of.get(x, ()):
            if c not in seen and c not in TRANSITIONS:
                seen.add(c)
                work.append(c)
    for field, fns in sorted(w.items()):
        role = inv.get(field)
        if role is None:
            continue
        names = {path.split("::")[-1] for path in fns}
        bad = {n for n in names if not (n in TRANSITIONS or (n in reach and n not in reach_other))}
        bad |= names & FORBIDDEN.get(role, set())
        ctx.ob("R8", "writers/" + role, not bad,
               "field %s may only be written by the transition functions %s and private helpers reachable only from them; "
               "also written by %s" % (field, sorted(TRANSITIONS), sorted(bad)),
               what="unexpected-writer:" + ",".join(sorted(bad)) if bad else None)
    ctx.floor("R8", "animator fields with writers", len([f for f in w if f in inv]), 5)


def controls(ctx, F):
    from rules import c04
    tab = T.build(ctx, facts=F, adt_path=c04.CTL_ADT, crate="witness_controls")
    T.rules_c04(ctx, tab)
    return [("R5", "stale-pause-record-kept", "animator copy that never discards the pause record")]
