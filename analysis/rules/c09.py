"""C09 - a timeline is a pure, repeatable function of time (DESIGN.md section 5, C09)."""
import re
from rules import derive_rules as D
from rules import c01, c12
import pse
from pse import show
from rulelib import helpers_only_of, trace_of, calls, field_writers

# std / dependency types known to contain no interior mutability (one line of reason each)
PURE_TYPES = {
    "f32": "scalar", "f64": "scalar", "bool": "scalar", "usize": "scalar", "u8": "scalar", "u16": "scalar", "u32": "scalar",
    "u64": "scalar", "i8": "scalar", "i16": "scalar", "i32": "scalar", "i64": "scalar", "isize": "scalar", "char": "scalar",
    "alloc::vec::Vec": "owning heap array, no cells", "core::option::Option": "plain enum",
    "core::marker::PhantomData": "zero-sized", "alloc::string::String": "Vec<u8>",
    "euclid::point::Point2D": "two scalars + PhantomData", "lyon_geom::cubic_bezier::CubicBezierSegment": "four points",
    "alloc::boxed::Box": "owning pointer", "core::time::Duration": "two integers",
    "euclid::UnknownUnit": "zero-sized unit marker", "alloc::alloc::Global": "zero-sized allocator handle",
}
IMPURE_MARKERS = ("Cell", "Mutex", "RwLock", "Atomic", "Once", "Lazy", "Rc<", "Arc<")
ROOT_TYPES = ["mina_core::timeline_helpers::SubTimeline", "mina_core::timeline_helpers::SplitKeyframe",
              "mina_core::time_scale::TimeScale", "mina_core::timeline::MergedTimeline", "mina_core::timeline::Repeat",
              "mina_core::easing::CubicBezierEasing", "mina_core::easing::LinearEasing", "mina_core::easing::Easing"]


def split_types(ty):
    """type constructor names occurring in a type string"""
    return [t for t in re.findall(r"[A-Za-z_][A-Za-z0-9_:]*", ty) if t not in ("dyn", "mut", "const", "static")]


def rule_no_hidden_state(ctx, F, extra_roots, rule="R1"):
    seen = {}
    work = list(ROOT_TYPES) + list(extra_roots)
    bad = []
    generic = re.compile(r"^[A-Z][A-Za-z0-9]*$")
    while work:
        t = work.pop()
        if t in seen:
            continue
        seen[t] = True
        if t in PURE_TYPES:
            continue
        a = F.adts.get(t)
        if a is None:
            base = t
            if base in PURE_TYPES or generic.match(base):
                continue
            if any(m in base for m in IMPURE_MARKERS):
                bad.append(t)
                continue
            if base.startswith("mina_core::easing::EasingFunction"):
                continue  # Box<dyn EasingFunction>: user-supplied Custom easing, excluded by the property
            if base.startswith("glam::") or base.startswith("witness_") or base.startswith("state_animator_test") \
                    or base.startswith("macroless_timeline"):
                continue
            bad.append(t + " (unknown type: cannot vouch)")
            continue
        for v in a["variants"]:
            for f in v["fields"]:
                if any(m in f["ty"] for m in IMPURE_MARKERS):
                    bad.append("%s.%s: %s" % (t, f["name"], f["ty"]))
                for c in split_types(f["ty"]):
                    if "::" in c or c in PURE_TYPES:
                        work.append(c)
    ctx.ob(rule, "no-interior-mutability", not bad,
           "no type reachable from a timeline's fields may contain interior mutability: %s" % bad, what="interior-mutability")
    ctx.extra["types_searched"] = len(seen)
    # thread-locals / statics written in mina_core
    tls = []
    for bid, b in F.bodies.items():
        crate, test = F.body_unit[bid]
        if crate != "mina_core" or test:
            continue
        for blk in b["blocks"]:
            for s in blk["stmts"]:
                if s["k"] == "assign" and s["rv"]["k"] == "tls":
                    tls.append(b["path"])
    ctx.ob(rule, "no-thread-locals", not tls, "mina_core must not use thread-local state: %s" % tls, what="thread-local")
    statics = [b["path"] for bid, b in F.bodies.items() if F.body_unit[bid] == ("mina_core", False) and b["def_kind"].startswith("Static")
               and "mutability: Mut" in b["def_kind"]]
    ctx.ob(rule, "no-static-mut", not statics, "mina_core must not have mutable statics: %s" % statics, what="mutable-static")


def rule_override(ctx, F, rule="R4"):
    fl = c01.st_fields(F)
    b = F.one(crate="mina_core", name="override_start_value", impl_self_adt=c01.ST)
    eng = pse.Engine(F)
    ps = eng.run(b)
    ctx.count_paths(ps, b)
    SELF = ("deref", ("param", 1))
    n = 0
    for p in ps:
        fin = eng.read_loc(p, ("M", ("param", 1)), (("field", fl["ov"]),))
        for fld in (fl["frames"], fl["imap"]):
            v = eng.read_loc(p, ("M", ("param", 1)), (("field", fld),))
            ctx.ob(rule, "override_start_value/untouched[%s]" % fld, v == ("field", SELF, fld),
                   "override_start_value must not modify %s" % fld, b["span"], trace_of(p), what="override-writes-frames")
        if fin == ("field", SELF, fl["ov"]):
            continue
        n += 1
        ok = fin[0] == "agg" and fin[3] == "Some"
        reads_prev = False
        if ok:
            fr = fin[4][0][1]
            first = [e for e in calls(p, lambda e: e["fn"]["name"] == "first")]
            f0 = ("deref", ("field", ("variant", first[0]["result"], "Some"), "0")) if first else None
            ok = fr[0] == "agg" and f0 is not None and dict(fr[4]) == {
                fl["time"]: ("field", f0, fl["time"]), fl["value"]: ("param", 2), fl["easing"]: ("field", f0, fl["easing"])} \
                and first[0]["descs"][0] == ("&", ("field", SELF, fl["frames"]))
            reads_prev = pse.contains(fin, ("field", SELF, fl["ov"])) or \
                any(pse.contains(t, ("field", SELF, fl["ov"])) for (t, v, s) in p.conds)
        ctx.ob(rule, "override_start_value/replaces", ok and not reads_prev,
               "the override must be frame 0 with the new value (same position and easing), replacing - not merging with - "
               "any previous override; stores %s" % show(fin)[:300], b["span"], trace_of(p), what="override-merges")
    ctx.floor(rule, "override-storing paths", n, 1)
    # who may write the fields: the constructors (from_keyframes / empty / clone), override_start_value for the override,
    # and private helpers that only those functions can reach (e.g. a builder struct's finish())
    w = field_writers(F, c01.ST)
    ctor = lambda b: b.get("impl_self_adt") == c01.ST and b["name"] in ("from_keyframes", "empty", "clone")
    ctor_ov = lambda b: ctor(b) or (b.get("impl_self_adt") == c01.ST and b["name"] == "override_start_value")
    ok_ids = helpers_only_of(F, "mina_core", ctor)
    ok_ids_ov = helpers_only_of(F, "mina_core", ctor_ov)
    by_path = {}
    for bid, b in F.bodies.items():
        by_path.setdefault(b["path"], []).append(bid)
    for fld, who in sorted(w.items()):
        allowed = ok_ids_ov if fld == fl["ov"] else ok_ids
        bad = sorted(x for x in who if not all(bid in allowed for bid in by_path.get(x, [None])))
        ctx.ob(rule, "writers[%s]" % fld, not bad,
               "SubTimeline.%s may be written only by its constructors%s and their private helpers; also written by %s"
               % (fld, " and override_start_value" if fld == fl["ov"] else "", bad), what="unexpected-writer")


def _fieldwise_clone(ctx, F, body, ty):
    """a hand-written clone: one straight path returning the same type with every field the clone of that field of self"""
    ps = pse.Engine(F, inline=lambda fn, b: False).run(body)
    ctx.count_paths(ps, body)
    if len(ps) != 1 or ps[0].outcome != "return" or ps[0].ret[0] != "agg":
        return False
    adt = F.adt(ty)
    got = dict(ps[0].ret[4])
    want = [f["name"] for f in adt["variants"][0]["fields"]]
    me = ("deref", ("param", 1))
    return sorted(got) == sorted(want) and all(got[f] == ("field", me, f) for f in want)


def check(ctx):
    F = ctx.facts
    shapes = D.collect(ctx)
    extra = []
    for s in shapes:
        if not s.sibling and s.F is not None:
            pass
    rule_no_hidden_state(ctx, F, extra, "R1")
    # a property that has data gets a non-empty sub-timeline, so that update always writes it and the result never
    # depends on what the target held before (splitter, C01/R1)
    c01.rule_split(ctx, F, "R5")
    n = 0
    for s in shapes:
        if s.sibling:
            continue
        n += 1
        D.rule_update(ctx, s, rule_wiring="R2", rule_touch="R2", rule_pure="R2")
        D.rule_clone(ctx, s, "R3")
        D.rule_start_with(ctx, s, "R4")
        # generated timeline struct: fields are boundary table, time scale and sub-timelines only
        tl = s.F.adts.get(s.prefix + s.target + "Timeline")
        if tl:
            bad = [f["name"] for f in tl["variants"][0]["fields"]
                   if not (f["ty"] in ("alloc::vec::Vec<f32>", "mina_core::time_scale::TimeScale") or "SubTimeline<" in f["ty"])]
            ctx.ob("R1", s.label + "/timeline-fields-pure", not bad,
                   "generated timeline must consist of the boundary table, the time scale and sub-timelines only: %s" % bad,
                   tl["span"], what="generated-hidden-state")
    ctx.floor("R2", "derive uses analysed", n, 10 if ctx.tier == "quick" else 100)
    # clone of the core types is derived
    for ty in ("mina_core::timeline_helpers::SubTimeline", "mina_core::timeline_helpers::SplitKeyframe",
               "mina_core::time_scale::TimeScale"):
        cl = F.find(crate="mina_core", name="clone", impl_trait="core::clone::Clone", impl_self_adt=ty)
        ok = len(cl) == 1 and (bool(cl[0].get("impl_exp")) or _fieldwise_clone(ctx, F, cl[0], ty))
        ctx.ob("R3", "Clone/" + ty.split("::")[-1], ok,
               "Clone for %s must be the field-wise clone (derived, or written by hand with every field cloned from the "
               "same field)" % ty, cl[0]["span"] if cl else None, what="clone-not-fieldwise")
    # an evaluation never depends on the target's previous contents only if it always happens: the phase table hands a frame
    # to every evaluation of a timeline with keyframes (None only for an empty one) (C10/R1)
    from rules import c10
    c10.rules_prepare_frame(ctx, "R6")
    c12.check_wrapping(ctx, F, "R3")
    rule_override(ctx, F, "R4")
    c12.check_loop_method(ctx, F, "R4", "start_with", mutable=True)
    # a merged timeline is a function of time only if it applies every component on every evaluation
    c12.check_loop_method(ctx, F, "R2", "update", mutable=False)
    ctx.notes.append("excluded, as in the property: a user-supplied Easing::Custom. Not decided: nothing material for built-in easings")


def controls(ctx, F):
    from rules import c08
    s = c08.control_shape(F)
    D.rule_update(ctx, s, rule_wiring="R2", rule_touch="R2", rule_pure="R2")
    D.rule_start_with(ctx, s, "R4")
    return [("R2", "reads-target", "hand-written update whose result depends on the previous contents of the target"),
            ("R4", "start-with-wrong", "hand-written start_with that skips a field")]
