"""C15 - timeline! produces exactly the timeline the builder API would (DESIGN.md section 5, C15)."""
import json
import re
import os
import subprocess
import extract
import witness
import tv
import pse
from pse import show
from rulelib import trace_of, calls

PARSER_CRATE = "mina_macros"


def rule_tv(ctx, rule="R1"):
    w = witness.load(ctx, "timeline")
    F = w["facts"]
    meta = w["meta"]["timeline"]
    errs = [e for e in w["errors"] if e["target"] == "witness_timeline"]
    for e in errs:
        ctx.ob(rule, "witness-compiles/%s:%s" % (e["file"], e["line"]), False,
               "a well-formed timeline! sentence (or its builder twin) is rejected by the compiler: %s" % e["message"],
               "%s:%s" % (e["file"], e["line"]), what="well-formed-sentence-rejected")
    if F is None or "witness_timeline" in w["missing"]:
        ctx.ob(rule, "witness-compiles", False, "witness-timeline did not compile; no translation validation possible",
               what="no-witness")
        return
    programs = 0
    ulp_notes = 0
    prods = set()
    samples = []
    for m in meta:
        try:
            bm = F.one(crate="witness_timeline", name=m["name"] + "_macro")
            br = F.one(crate="witness_timeline", name=m["name"] + "_ref")
        except Exception as ex:
            ctx.ob(rule, "pair/" + m["name"], False, "pair not found in the facts: %s" % ex, what="anchor-lost")
            continue
        em, pm = tv.summarize(F, bm)
        er, pr = tv.summarize(F, br)
        ctx.count_paths(pm, bm)
        ctx.count_paths(pr, br)
        programs += 1
        prods |= set(m["prods"])
        pairs = tv.pair_paths(pm, pr)
        if pairs is None:
            ctx.ob(rule, "pair/" + m["name"], False, "macro expansion and builder chain do not take the same paths through the "
                   "builder code (%d / %d paths): %s" % (len(pm), len(pr), m["macro"]), bm["span"], what="not-a-builder-chain")
            continue
        diffs = {}
        ok = True
        am = ar = []
        sm = sr = None
        for (xm, xr) in pairs:
            sm, sr = tv.merged_shape(xm.ret), tv.merged_shape(xr.ret)
            am, ar = tv.build_args(xm.ret), tv.build_args(xr.ret)
            ok = ok and sm == sr and len(am) == len(ar)
            if ok:
                for i, (x, y) in enumerate(zip(am, ar)):
                    if not tv.same(tv.timeline_record(x), tv.timeline_record(y), diffs, "timeline[%d]" % i):
                        ok = False
        ulp_notes += len(diffs.get("ulp", []))
        detail = "macro: %s | documented reading: %s | differences: %s" % (m["macro"], m["ref"], diffs.get("diff", [])[:4] or
                                                                      "wrapping %s vs %s" % (sm, sr))
        ctx.ob(rule, "pair/%s" % m["name"], ok, detail, bm["span"], what="macro-differs-from-builder")
        if len(samples) < 6:
            samples.append({"macro": m["macro"], "record": tv.show_record(tv.timeline_record(am[0])) if am else None})
    ctx.extra["programs"] = programs
    ctx.extra["disagreements_checked"] = programs
    ctx.extra["productions_covered"] = sorted(prods)
    ctx.extra["ulp_tolerated"] = ulp_notes
    ctx.extra["tv_samples"] = samples
    ctx.floor(rule, "timeline! / builder pairs validated", programs, 30 if ctx.tier == "quick" else 250)
    return prods


# productions the generator knows how to read; every alternative the parser has must be among them
KNOWN_PEEKS = {
    "syn::token::Comma": "end of one timeline in a merge list",
    "syn::token::For": "for",
    "kw::after": "after",
    "kw::reverse": "reverse",
    "kw::infinite": "infinite",
    "kw::from": "kf:from",
    "kw::to": "kf:to",
    "syn::lit::Lit": "literal (duration / repeat / percent)",
    "syn::token::Percent": "kf:%",
    "syn::token::Bracket": "merge-list",
    "syn::token::Default": "values:default",
    "syn::token::Brace": "values:braces",
}
KNOWN_SUFFIXES = {"s": "duration:s", "ms": "duration:ms", "x": "repeat:x", "": "kf:%"}


def peeks_of(F, body):
    """token types a parser body peeks at (generic arguments of ParseBuffer::peek / the token function passed)"""
    out = []
    for blk in body["blocks"]:
        t = blk["term"]
        if t["k"] != "call" or "fn" not in t["func"]:
            continue
        fn = t["func"]["fn"]
        if fn["name"] == "peek" and "ParseBuffer" in fn["path"]:
            # peek::<T>(token_fn): the token is named by the fn item passed as argument
            tok = None
            for a in t["args"]:
                if a["k"] == "const" and "fn" in a:
                    tok = a["fn"]["path"]
            if tok is None and len(fn["substs"]) > 0:
                tok = fn["substs"][-1]
            out.append(tok)
    return out


def str_consts_compared(F, body):
    """string constants a function compares something with (match arms on a &str, `==`, `is_empty()` = the empty string);
    read off the decisions of its paths, so it does not matter how the comparison is spelled"""
    out = set()
    for blk in body["blocks"]:
        t = blk["term"]
        if t["k"] == "call" and "fn" in t["func"] and t["func"]["fn"]["name"] in ("eq", "ne"):
            for a in t["args"]:
                if a["k"] == "const" and "str" in a:
                    out.add(a["str"])
    try:
        ps = pse.Engine(F, inline=lambda fn, bb: False, max_paths=4000).run(body)
    except pse.Budget:
        ps = []
    for p in ps:
        for (t, v, s) in p.conds:
            if t[0] == "bin" and t[1] in ("Eq", "Ne"):
                for x in (t[2], t[3]):
                    while x[0] in ("deref", "&"):
                        x = x[1]
                    if pse.is_const(x) and isinstance(x[2], tuple) and x[2][0] == "str":
                        out.add(x[2][1])
                if t[2][0] == "len" and t[3] == ("const", "usize", 0) and \
                        any(e["kind"] == "call" and e["fn"].get("name") == "is_empty" and "str" in e["callee"] for e in p.events):
                    out.add("")
            if t[0] == "call" and t[1].endswith("str::<impl str>::is_empty"):
                out.add("")
    return out


def rule_grammar(ctx, prods, rule="R2"):
    F = ctx.facts
    bodies = {}
    for name in ("TimelineConfig", "TimelineOrMergeConfig", "KeyframeConfig", "KeyframeValues", "KeyframeRepeatArgument",
                 "TimelineDurationArgument"):
        bs = [b for b in F.find(crate=PARSER_CRATE, name="parse", impl_trait="syn::parse::Parse")
              if b.get("impl_self", "").endswith("::" + name)]
        if len(bs) != 1:
            ctx.lost(rule, "parser/" + name, "Parse impl for %s" % name)
            continue
        bodies[name] = bs[0]
    # the alternatives are collected from the Parse impls and from every other function of the same source file (a
    # lookahead may live in a private helper such as a `recognize` function)
    files = {b["span"].split(":")[0] for b in bodies.values() if b.get("span")}
    helpers = [b for b in F.find(crate=PARSER_CRATE) if b.get("span") and b["span"].split(":")[0] in files
               and b["id"] not in {x["id"] for x in bodies.values()}]
    peeks = {}
    for name, b in list(bodies.items()) + [(h["path"].split("::")[-2] + "::" + h["name"] if "::" in h["path"] else h["name"], h)
                                           for h in helpers]:
        for tok in peeks_of(F, b):
            peeks.setdefault(norm_tok(tok), set()).add(name)
    ctx.extra["parser_peeks"] = {k: sorted(v) for k, v in peeks.items()}
    for tok, where in sorted(peeks.items()):
        known = tok in KNOWN_PEEKS
        ctx.ob(rule, "peek/%s" % tok, known,
               "the parser has an alternative (%s in %s) that the witness generator has no reading for: an unvalidated "
               "production" % (tok, sorted(where)), what="unvalidated-production")
        if known:
            prod = KNOWN_PEEKS[tok]
            if prod.split(" ")[0] in ("for", "after", "reverse", "infinite", "kf:from", "kf:to", "kf:%", "merge-list",
                                      "values:default", "values:braces"):
                p = prod.split(" ")[0]
                covered = p in prods or (p == "values:default")   # `default` bodies are exercised by the animator corpus (C16)
                ctx.ob(rule, "covered/%s" % p, covered, "production %s is exercised by no witness sentence" % p,
                       what="production-not-covered")
    ctx.floor(rule, "peek alternatives of the timeline parsers", len(peeks), 9)
    if "TimelineConfig" in bodies:
        sfx = set()
        for b in [bodies["TimelineConfig"]] + helpers:
            sfx |= str_consts_compared(F, b)
        # string patterns are matched through a closure-free chain of str::eq calls on the literal's suffix
        ctx.extra["suffixes"] = sorted(sfx)
        for s in sorted(sfx):
            ctx.ob(rule, "suffix/%r" % s, s in KNOWN_SUFFIXES,
                   "the parser accepts literal suffix %r, which the documented reading does not know" % s,
                   what="unvalidated-suffix")
        for s, p in KNOWN_SUFFIXES.items():
            if s in sfx:
                ctx.ob(rule, "suffix-covered/%r" % s, p in prods, "suffix %r is exercised by no witness sentence" % s,
                       what="suffix-not-covered")
        ctx.floor(rule, "literal suffixes compared by TimelineConfig::parse", len(sfx), 4)


def norm_tok(tok):
    if tok is None:
        return "?"
    t = tok
    # custom keywords (syn::custom_keyword! in a `kw` module of the macro crate, wherever that module lives): kw::<name>
    m = re.search(r"(?:^|::)kw::([A-Za-z_0-9]+)", t)
    if m and t.startswith(PARSER_CRATE + "::"):
        return "kw::" + m.group(1)
    # syn tokens: syn::token::<Name>
    for pre in ("syn::token::", "syn::lit::"):
        if pre in t:
            rest = t.split(pre, 1)[1]
            name = rest.split("::")[0].split("<")[0].split(">")[0]
            return pre + name
    return t


def _consts_of(b):
    for blk in b["blocks"]:
        for st in blk["stmts"]:
            if st["k"] == "assign":
                rv = st["rv"]
                for key in ("op", "a", "b"):
                    o = rv.get(key)
                    if isinstance(o, dict) and o.get("k") == "const":
                        yield o
                for o in (rv.get("ops") or []) + (rv.get("fields") or []):
                    if isinstance(o, dict) and o.get("k") == "const":
                        yield o
        t = blk.get("term") or {}
        for o in (t.get("args") or []):
            if isinstance(o, dict) and o.get("k") == "const":
                yield o


def rule_units(ctx, rule="R3"):
    """seconds_multiplier: "s" -> 1, "ms" -> 1e-3, everything else an error; percent scale 1e-2; from -> 0, to -> 1"""
    F = ctx.facts
    import struct
    f32 = lambda x: struct.unpack("f", struct.pack("f", x))[0]

    def str_key(p):
        key = None
        for (t, v, s) in p.conds:
            if t[0] == "bin" and t[1] == "Eq" and v == 1:
                for x in (t[2], t[3]):
                    if x[0] == "deref":
                        x = x[1]
                    if pse.is_const(x) and isinstance(x[2], tuple) and x[2][0] == "str":
                        key = x[2][1]
            if t[0] == "call" and t[1].endswith("::eq") and v == 1:
                for x in t[2]:
                    y = x[1] if x[0] in ("&",) else x
                    if pse.is_const(y) and isinstance(y[2], tuple) and y[2][0] == "str":
                        key = y[2][1]
        return key

    # the unit table is found by what it does, not by its name: the function of the parser crate that yields an f32 and
    # decides on the literal's suffix by comparing it with string constants
    cands = _unit_candidates(F)
    if len(cands) != 1:
        ctx.lost(rule, "unit-table", "expected exactly one f32-yielding function of %s that compares a suffix with \"s\"/\"ms\"; "
                 "found %s" % (PARSER_CRATE, [b["path"] for b in cands]))
        return
    b = cands[0]
    eng = pse.Engine(F, inline=lambda fn, bb: False)
    ps = eng.run(b)
    ctx.count_paths(ps, b)

    def fv(t):
        return t[2][2] if t is not None and pse.is_const(t) and isinstance(t[2], tuple) and t[2][0] == "f" else None

    def multiplier(v):
        """the factor a successful path applies: a constant result, magnitude * constant, or the bare magnitude (factor 1)"""
        if fv(v) is not None:
            return fv(v)
        if v[0] == "bin" and v[1] == "Mul":
            cs = [fv(x) for x in (v[2], v[3]) if fv(x) is not None]
            if len(cs) == 1:
                return cs[0]
            return "?"
        if not any(fv(x) is not None for x in pse.subterms(v)) and not any(x[0] == "bin" for x in pse.subterms(v)):
            return 1.0
        return "?"

    table = {}
    for p in ps:
        key = str_key(p)
        r = p.ret
        val = None
        if p.outcome == "return" and r[0] == "agg" and r[3] in ("Ok", "Some"):
            val = multiplier(r[4][0][1])
        elif p.outcome == "return" and r[0] == "call" and r[1].endswith("::from_residual"):
            val = None      # an error of an earlier step propagated by `?`
        elif p.outcome == "return" and r[0] != "agg":
            val = "?" if r[0] != "noreturn" else None
        table.setdefault(key, []).append(val)
    ok = set(k for k in table if k is not None) == {"s", "ms"} and \
        set(table.get("s", [])) == {1.0} and set(table.get("ms", [])) == {f32(0.001)} and \
        all(v is None for v in table.get(None, [None]))
    ctx.ob(rule, "unit-table", ok,
           "unit table (%s) must be exactly s -> 1, ms -> 0.001, anything else an error; it is %s"
           % (b["path"], {k: [v if v is not None else "Err" for v in vs] for k, vs in table.items()}), b["span"],
           what="unit-table-wrong")
    # percent scale and from/to positions: the only float constants of the macro crate outside the unit table
    # (wherever the emission code keeps them - the function is not looked up by name)
    consts = set()
    sites = []
    for bb in F.find(crate=PARSER_CRATE):
        if bb["id"] == b["id"] or bb.get("parent") == b["id"]:
            continue
        here = {f32(float(o["f"])) for o in _consts_of(bb) if "f" in o and o.get("ty") in ("f32", "f64")}
        if here:
            sites.append(bb["path"])
            consts |= here
    ok2 = consts == {0.0, 1.0, f32(0.01)}
    ctx.ob(rule, "keyframe-positions", ok2,
           "keyframe positions must use exactly from -> 0.0, to -> 1.0 and percent * 0.01; float constants found in %s: %s"
           % (sites, sorted(consts)), what="position-constants-wrong")


NUMERIC_TYS = ("f32", "f64", "u8", "u16", "u32", "u64", "usize", "i8", "i16", "i32", "i64", "isize")


def _unit_candidates(F):
    """the unit table is found by what it does, not by its name: the function of the parser crate that yields an f32 and
    decides on the literal's suffix by comparing it with the string constants "s" / "ms" (match arms or `==`)"""
    cands = []
    for b in F.find(crate=PARSER_CRATE):
        if b["def_kind"] == "Closure" or "f32" not in (b.get("sig_output") or ""):
            continue
        if any(c.get("k") == "const" and c.get("str") in ("ms", "s") for c in _consts_of(b)) or \
                {"s", "ms"} <= str_consts_compared(F, b):
            cands.append(b)
    return cands


def _unit_table(F):
    cands = _unit_candidates(F)
    return cands[0] if len(cands) == 1 else None


def rule_emitted_numbers(ctx, rule="R5"):
    """Every number the macros write into an expansion (`<f32|u32|.. as ToTokens>::to_tokens`) is a fixed function of the
    sentence: 0.0 / 1.0 (from / to), literal * 0.01 (percent), literal * unit(literal) (durations, delays), or the parsed
    integer itself (repeat count) - one form per grammar alternative, no conversion through another numeric type, and no
    branch on the size of the literal.  Decides the position / unit / count clauses for every literal, where the corpus can
    only sample some."""
    F = ctx.facts
    import struct
    f32 = lambda x: struct.unpack("f", struct.pack("f", x))[0]
    unit = _unit_table(F)
    local = {b["path"]: b for b in F.find(crate=PARSER_CRATE) if b["def_kind"] != "Closure"}

    def fconst(t):
        return t[2][2] if pse.is_const(t) and isinstance(t[2], tuple) and t[2][0] == "f" else None

    def payload(t):
        """strip `(Try::branch(x) as Continue).0` and Ok{..} wrappers"""
        while True:
            if t[0] == "field" and t[1][0] == "variant" and t[1][2] == "Continue" and t[1][1][0] == "call" and \
                    t[1][1][1].endswith("Try>::branch"):
                t = t[1][1][2][0]
                continue
            if t[0] == "agg" and t[3] == "Ok" and len(t[4]) == 1:
                t = t[4][0][1]
                continue
            if t[0] == "field" and t[2] == "0" and t[1][0] == "variant" and t[1][2] == "Ok":
                t = t[1][1]         # the Ok payload of a Result-yielding call (`x.map(..).transpose()?`)
                continue
            return t

    # the unit table either yields the bare factor (1.0 / 0.001) or, merged with the reading of the literal, the scaled
    # magnitude itself (`to_seconds(lit) = lit.as_f32()? * factor`); C15/R3 judges its table in both shapes
    unit_scaled = False
    if unit is not None:
        for q in pse.Engine(F, inline=lambda fn, bb: False).run(unit):
            if q.outcome == "return" and any(x[0] == "bin" and x[1] == "Mul" for x in pse.subterms(q.ret)):
                unit_scaled = True
    reader_cache = {}

    def is_reader(path):
        """a crate-local function that only reads a literal: every successful result is the payload of a syn literal
        accessor applied to (a field of) its own argument, at most widened - no arithmetic, no float constants"""
        if path in reader_cache:
            return reader_cache[path]
        reader_cache[path] = False
        b = local.get(path)
        if b is None:
            return False
        ps = pse.Engine(F, inline=lambda fn, bb: False).run(b)
        ctx.count_paths(ps, b)
        ok, n = True, 0
        for q in ps:
            if q.outcome != "return":
                continue
            r = payload(q.ret)
            if r[0] == "call" and r[1].endswith("from_residual"):
                continue
            if r[0] == "cast":
                r = r[2]
            r = payload(r)
            n += 1
            ok = ok and r[0] == "call" and r[1].startswith("syn::lit::")
        reader_cache[path] = ok and n > 0
        return reader_cache[path]

    def leaf(t):
        """('lit', place) for a literal read, ('unit', place) for the unit table applied to a literal, else None"""
        t = payload(t)
        if t[0] != "call":
            return None
        arg = t[2][0] if t[2] else None
        if arg is not None and arg[0] == "&":
            arg = arg[1]
        if unit is not None and t[1] == unit["path"]:
            return ("unit", arg)
        if t[1].startswith("syn::lit::") and t[1].endswith("base10_parse"):
            return ("lit", arg)
        if is_reader(t[1]):
            return ("lit", arg)
        return None

    def classify(t):
        """name of the accepted form of an emitted value, or None"""
        t = payload(t)
        c = fconst(t)
        if c is not None:
            return {0.0: "zero", 1.0: "one"}.get(c)
        if leaf(t) and leaf(t)[0] == "lit":
            return "literal"
        if leaf(t) and leaf(t)[0] == "unit" and unit_scaled:
            return "seconds"
        if t[0] == "bin" and t[1] == "Mul":
            a, b_ = payload(t[2]), payload(t[3])
            for x, y in ((a, b_), (b_, a)):
                lx = leaf(x)
                if lx and lx[0] == "lit":
                    if fconst(y) == f32(0.01):
                        return "percent"
                    ly = leaf(y)
                    if ly and ly[0] == "unit" and ly[1] == lx[1] and not unit_scaled:
                        return "seconds"
        return None

    def literals_of(t):
        return [x for x in pse.subterms(t) if x[0] == "call" and leaf(x) and leaf(x)[0] == "lit"]

    seen_forms = {}
    groups = {}
    n_sites = 0
    work = [b for b in local.values() if not (b.get("impl_trait") or "").endswith("Parse")]
    helper_returns = []
    done = set()
    while work:
        b = work.pop()
        as_helper = b["id"] in [h["id"] for h in helper_returns]
        if (b["id"], as_helper) in done or (unit is not None and b["id"] == unit["id"]):
            continue
        done.add((b["id"], as_helper))
        try:
            ps = pse.Engine(F, inline=lambda fn, bb: False).run(b)
        except pse.Budget:
            continue
        ctx.count_paths(ps, b)
        for q in ps:
            g = frozenset((show(t), v) for (t, v, s_) in q.conds
                          if t[0] == "discr" and not isinstance(v, tuple) and pse.contains(t, ("param", 1)) | pse.contains(t, ("param", 2))
                          | pse.contains(t, ("param", 3)) and not any(x[0] == "call" for x in pse.subterms(t)))
            emitted = []
            ordinal = {}
            for e in q.events:
                if e["kind"] == "call" and e["callee"].endswith("ToTokens>::to_tokens") and \
                        (e["fn"].get("self_ty") or "").strip() in NUMERIC_TYS:
                    v = e["descs"][0]
                    # the place of the emission: the function or closure it is written in and its rank there (the call
                    # site itself lies inside quote's own macro)
                    where = e.get("body") or b["path"]
                    ordinal[where] = ordinal.get(where, 0) + 1
                    emitted.append(("%s#%d" % (where, ordinal[where]), v[1] if v[0] == "&" else v))
            if as_helper and q.outcome == "return":
                r = payload(q.ret)
                if not (r[0] == "call" and r[1].endswith("from_residual")) and not (r[0] == "agg" and r[3] == "Err"):
                    emitted.append(("return of " + b["path"], r))
            for (site, v) in emitted:
                v = payload(v)
                # a number computed by a helper of the crate: judge the helper's results instead
                if v[0] == "call" and v[1] in local and leaf(v) is None and "f32" in (local[v[1]].get("sig_output") or "") + \
                        "u32" * ("u32" in (local[v[1]].get("sig_output") or "")):
                    h = local[v[1]]
                    if (h["id"], True) not in done:
                        helper_returns.append(h)
                        work.append(h)
                    continue
                n_sites += 1
                form = classify(v)
                ctx.ob(rule, "%s/form[%s]" % (b["path"], show(v)[:90]), form is not None,
                       "a number written into the expansion must be 0.0, 1.0, literal * 0.01, literal * unit(literal) or the "
                       "parsed literal itself; it is %s" % show(v), b["span"], trace_of(q), what="emitted-number-form")
                if form is None:
                    continue
                seen_forms[form] = seen_forms.get(form, 0) + 1
                groups.setdefault((b["path"], site, g), set()).add(form if form in ("zero", "one") else form + ":" + show(v))
                lits = literals_of(v)
                # the literal's VALUE is the payload of the reading call (`(branch(read) as Continue).0`, `(read as Ok).0`);
                # whether the read succeeded (the discriminant of the call's result) is not a property of its size
                def value_terms(l):
                    br = [x for x in pse.subterms(v) if x[0] == "call" and x[1].endswith("Try>::branch") and x[2] and x[2][0] == l]
                    return [("field", ("variant", l, "Ok"), "0")] + [("field", ("variant", x, "Continue"), "0") for x in br]
                dep = [show(t) for (t, vv, s_) in q.conds if any(pse.contains(t, vt) for l in lits for vt in value_terms(l))]
                ctx.ob(rule, "%s/no-branch-on-literal[%s]" % (b["path"], form), not dep,
                       "the expansion must not depend on the size of a literal other than through the emitted number: %s" % dep,
                       b["span"], trace_of(q), what="branches-on-literal-value")
    for (bp, site, g), forms in sorted(groups.items(), key=lambda kv: str(kv[0])):
        ctx.ob(rule, "%s/one-form-per-alternative[%s]" % (bp, ",".join(sorted("%s=%s" % x for x in g))[:120]), len(forms) == 1,
               "one grammar alternative must always produce the same form of number; it produces %s" % sorted(forms),
               what="alternative-not-uniform")
    # (a shared helper may serve both the duration and the delay: one site of the 'seconds' form is enough)
    for form, floor in (("zero", 1), ("one", 1), ("percent", 1), ("seconds", 1), ("literal", 1)):
        ctx.floor(rule, "emitted numbers of form '%s'" % form, seen_forms.get(form, 0), floor)
    ctx.extra["emitted_number_sites"] = n_sites


def rule_negatives(ctx, rule="R4"):
    """ill-formed sentences are rejected at compile time; their twins compile"""
    w = witness.load(ctx, "timeline")
    base = witness.wdir(ctx.tier)
    meta = w["meta"]["neg"]
    sysroot = extract.nightly_sysroot()
    res = {}
    for nm in ("neg_bad", "neg_twin"):
        d = base + "-" + nm
        env = dict(os.environ)
        env.update({"CARGO_NET_OFFLINE": "true", "CARGO_TARGET_DIR": os.path.join(extract.CACHE, "target-witness-" + ctx.tier),
                    "RUSTFLAGS": "-Zmir-opt-level=0 -Zalways-encode-mir -Awarnings"})
        p = subprocess.run(["cargo", "+nightly", "check", "--offline", "--message-format=json"], cwd=d, env=env,
                           stdout=subprocess.PIPE, stderr=subprocess.PIPE, text=True)
        errs = []
        for line in p.stdout.splitlines():
            if not line.startswith("{"):
                continue
            m = json.loads(line)
            if m.get("reason") == "compiler-message" and m["message"].get("level") == "error":
                for s in m["message"].get("spans", []):
                    cur = s
                    while cur.get("expansion") and cur["expansion"].get("span"):
                        cur = cur["expansion"]["span"]
                    if s.get("is_primary"):
                        errs.append((cur.get("file_name"), cur.get("line_start"), m["message"]["message"][:120]))
        res[nm] = (p.returncode, errs, d)
    # map line -> function of the generated source
    def fn_lines(d):
        out = {}
        cur = None
        for i, line in enumerate(open(os.path.join(d, "src", "lib.rs")), 1):
            if line.startswith("pub fn "):
                cur = line.split("pub fn ")[1].split("(")[0]
            if cur:
                out[i] = cur
        return out
    bad_lines = fn_lines(res["neg_bad"][2])
    rejected = {}
    for (f, ln, msg) in res["neg_bad"][1]:
        fn = bad_lines.get(ln)
        if fn:
            rejected.setdefault(fn, []).append(msg)
    for m in meta:
        ctx.ob(rule, "rejected/" + m["name"], m["name"] in rejected,
               "ill-formed sentence is silently accepted: %s" % m["bad"], what="ill-formed-accepted")
    twin_errs = res["neg_twin"][1]
    ctx.ob(rule, "twins-compile", res["neg_twin"][0] == 0 and not twin_errs,
           "the repaired twins must compile (otherwise the negatives prove nothing): %s" % twin_errs[:3],
           what="twin-does-not-compile")
    ctx.extra["negatives"] = {k: v[:1] for k, v in rejected.items()}
    ctx.floor(rule, "ill-formed sentences rejected", len(rejected), 10)


def check(ctx):
    prods = rule_tv(ctx, "R1") or set()
    # `default` keyframe bodies need an animator context; they are covered by the C16 corpus
    rule_grammar(ctx, prods, "R2")
    rule_units(ctx, "R3")
    rule_negatives(ctx, "R4")
    rule_emitted_numbers(ctx, "R5")
    ctx.notes.append("not decided: sentences outside the corpus (bounded by R2's coverage argument: every parser alternative "
                     "and suffix is exercised and none is unknown to the generator)")
    ctx.assumptions += ["the generator's encoding of the documented reading (witness/gen.py)",
                        "f32 unit conversion in the macro may differ from the decimal reading by 1 ulp (recorded, tolerated)"]


def controls(ctx, F):
    bm = F.one(crate="witness_controls", name="ctl_timeline_macro")
    br = F.one(crate="witness_controls", name="ctl_timeline_ref")
    em, pm = tv.summarize(F, bm)
    er, pr = tv.summarize(F, br)
    pairs = tv.pair_paths(pm, pr)
    ok = pairs is not None
    diffs = {}
    if ok:
        for (xm, xr) in pairs:
            am, ar = tv.build_args(xm.ret), tv.build_args(xr.ret)
            ok = ok and len(am) == len(ar) == 1 and tv.same(tv.timeline_record(am[0]), tv.timeline_record(ar[0]), diffs, "t")
    ctx.ob("R1", "control/pair", ok, "control pair differs: %s" % diffs.get("diff", [])[:2], what="macro-differs-from-builder")
    return [("R1", "macro-differs-from-builder", "a timeline! use and a builder chain with delay and duration swapped")]
