"""C17 - derive(Animate) yields a correct timeline API for every struct shape (DESIGN.md section 5, C17)."""
from rules import derive_rules as D
from rules import c03


def check(ctx):
    shapes = D.collect(ctx)
    n = 0
    for s in shapes:
        if s.sibling:
            # the hand-written template in examples/ is analysed as a sibling; disagreements are notes, not violations
            before = len(ctx.obs)
            D.rule_build(ctx, s, "G4")
            D.rule_update(ctx, s, "G4", "G5", "G5")
            D.rule_start_with(ctx, s, "G6")
            for o in ctx.obs[before:]:
                if not o["ok"]:
                    ctx.notes.append("sibling note (examples/macroless_timeline.rs): %s - %s" % (o["instance"], o["detail"][:200]))
            ctx.obs[before:] = [o for o in ctx.obs[before:] if o["ok"]]
            continue
        n += 1
        D.rule_keyframe_api(ctx, s)
        D.rule_build(ctx, s, "G4")
        D.rule_update(ctx, s, "G4", "G5", "G5")
        D.rule_start_with(ctx, s, "G6")
        D.rule_clone(ctx, s, "G9")
        for meth in ("cycle_duration", "delay", "duration", "repeat"):
            for b in D.body_of(s, meth, D.TL, s.target + "Timeline"):
                c03.check_accessor(ctx, s.F, b, "G7")
    # "accessors return what the builder was given": builder setters -> time scale fields -> getters (C03/R5)
    from rules import timescale_table as TT
    c03.rule_metadata(ctx, TT.build(ctx), "G10")
    # "evaluates per C01": the builder hands the generated build() the keyframes as given, sorted once by position (C11/R1)
    from rules import c11
    for bb in [x for x in c11.builders_of(ctx.facts, c11.TBA) if ctx.facts.body_unit[x["id"]][0] == "mina_core"]:
        c11.check_builder(ctx, ctx.facts, bb, "G11")
    c11.rule_append_only(ctx, ctx.facts, "G11")
    # ... and the evaluation the generated update delegates to: splitter, lookup, master search (C01/R1-R4)
    from rules import c01
    c01.rule_split(ctx, ctx.facts, "G12")
    c01.rule_lookup(ctx, ctx.facts, "G12", "G12")
    c01.rule_search(ctx, ctx.facts, "G12")
    # ... with every field type's own interpolation: the same end points, the same affine form and the same behaviour
    # outside [0,1] for floats, integers and vectors (C14/R1-R4), so that fields of different types move together
    from rules import c14
    c14.rule_endpoints(ctx, ctx.facts, "G13")
    c14.rule_affine(ctx, ctx.facts, "G13")
    c14.rule_integers(ctx, ctx.facts, "G13")
    c14.rule_glam(ctx, ctx.facts, "G13")
    # ... and ends when its own duration() says so: the end test of the time scale agrees with the reported total duration
    # (C03/R4)
    c03.rule_duration_formula(ctx, "G14", TT.build(ctx))
    ctx.extra["programs"] = n
    ctx.extra["disagreements_checked"] = n
    ctx.extra["tv_samples"] = [{"shape": s.label, "animated": s.animated, "target": s.target} for s in shapes[:8]]
    ctx.floor("G0", "struct shapes validated", n, 14 if ctx.tier == "quick" else 120)
    ctx.notes.append("not decided: shapes outside the generated family (generic structs are unsupported by the macro)")
    ctx.assumptions.append("the family description in witness/gen.py (which fields are animated, remote layout)")


def controls(ctx, F):
    from rules import c08
    s = c08.control_shape(F)
    D.rule_update(ctx, s, "G4", "G5", "G5")
    D.rule_start_with(ctx, s, "G6")
    return [("G5", "writes-unanimated-field", "hand-written update that overwrites a field which is not animated"),
            ("G6", "start-with-wrong", "hand-written start_with that skips a field")]
