"""C11 - the order in which keyframes are added does not matter (DESIGN.md section 5, C11)."""
from facts import AnchorLost
from rulelib import field_roles, calls, trace_of, mentions
import pse
from pse import show, subterms

TBA = "mina_core::timeline::TimelineBuilderArguments"
KEYFRAME = "mina_core::timeline::Keyframe"
SORTS = ("alloc::slice::<impl [T]>::sort_by", "core::slice::<impl [T]>::sort_unstable_by",
         "alloc::slice::<impl [T]>::sort_by_cached_key", "alloc::slice::<impl [T]>::sort_by_key",
         "core::slice::<impl [T]>::sort_unstable_by_key")


def builders_of(facts, adt_path):
    """non-test bodies that construct the ADT with an aggregate"""
    out = []
    for bid, b in facts.bodies.items():
        crate, test = facts.body_unit[bid]
        if test:
            continue
        found = False
        for blk in b["blocks"]:
            for s in blk["stmts"]:
                if s["k"] == "assign" and s["rv"]["k"] == "agg" and s["rv"].get("adt") == adt_path:
                    found = True
        if found:
            out.append(b)
    return out


def sorted_term(t):
    """peel K = after(sort(&mut X, cmp), 0, X) -> (call term, X) or None"""
    if t[0] == "after" and t[1][0] == "call" and t[1][1] in SORTS and t[2] == 0:
        return t[1], t[3]
    return None


def callable_body(facts, t):
    """(body, index of its first explicit parameter) for a closure literal or a fn item with a body; (None, None) else"""
    if isinstance(t, tuple) and t and t[0] == "agg" and t[1] == "closure":
        b = facts.bodies.get(t[2])
        return (b, 2) if b is not None else (None, None)
    if isinstance(t, tuple) and t and t[0] == "fn":
        b = facts.bodies.get(t[1])
        return (b, 1) if b is not None else (None, None)
    return (None, None)


def parallel_table(facts, paths, v, K, time_field):
    """is v a table holding exactly one entry per element of K - that element's position - in K's order?
    form A: collect(map(iter(&K), |k| k.time));  form B: an empty Vec filled by `for k in &K { v.push(k.time) }`"""
    if v[0] == "call" and v[1].endswith("Iterator::collect") and len(v[2]) == 1 and \
            v[2][0][0] == "call" and v[2][0][1].endswith("Iterator::map") and \
            v[2][0][2][0] == ("call", "core::slice::<impl [T]>::iter", (("&", K),)):
        cb, first = callable_body(facts, v[2][0][2][1])
        if cb is None:
            return False
        cps = [q for q in pse.Engine(facts).run(cb) if q.outcome == "return"]
        return len(cps) == 1 and cps[0].ret in (("field", ("deref", ("param", first)), time_field),
                                                ("field", ("param", first), time_field))
    if v[0] == "loop" and v[2][0] == "local" and v[3][0] == "call" and \
            (v[3][1].startswith("alloc::vec::Vec::<T>::new") or v[3][1].startswith("alloc::vec::Vec::<T>::with_capacity")):
        hdr = v[1]
        refs = [("&", K)] + ([K[1]] if K[0] == "deref" else [])     # &K, or the reference K was reached through
        sources = tuple(("call", fn_, (r,)) for r in refs for fn_ in (
            "core::slice::<impl [T]>::iter",
            "<&'a alloc::vec::Vec<T, A> as core::iter::traits::collect::IntoIterator>::into_iter",
            "core::slice::iter::<impl core::iter::traits::collect::IntoIterator for &'a [T]>::into_iter"))
        n_iter = 0
        for p in paths:
            pushes = [e for e in p.events if e["kind"] == "call" and e["descs"] and e["descs"][0] == ("&mut", v)]
            nx = [e for e in p.events if e["kind"] == "call" and e["fn"].get("name") == "next" and e["descs"]
                  and e["descs"][0][0] == "&mut" and e["descs"][0][1][0] == "loop" and e["descs"][0][1][1] == hdr]
            if not nx:
                if pushes:
                    return False
                continue
            if nx[0]["descs"][0][1][3] not in sources:
                return False
            took = [c[1] for c in p.conds if c[0][0] == "discr" and c[0][1] == nx[0]["result"]]
            if took == [1]:
                n_iter += 1
                item = ("field", ("variant", nx[0]["result"], "Some"), "0")
                if p.outcome != "backedge" or len(pushes) != 1 or not pushes[0]["callee"].startswith("alloc::vec::Vec::<T, A>::push") \
                        or pushes[0]["descs"][1] != ("field", ("deref", item), time_field):
                    return False
            elif pushes:
                return False
        return n_iter >= 1
    # form C: a private function of the workspace applied to (a slice of) K that is itself such a table of its argument
    if v[0] == "call" and len(v[2]) == 1 and _depth[0] < 3:
        arg = v[2][0]
        while arg[0] == "call" and arg[1].rsplit("::", 1)[-1] in ("as_slice", "deref", "as_ref", "borrow") and len(arg[2]) == 1:
            arg = arg[2][0]
        hb = next((b for b in facts.bodies.values() if b["path"] == v[1] and b["def_kind"] != "Closure"), None)
        if arg == ("&", K) and hb is not None and hb.get("arg_count") == 1:
            _depth[0] += 1
            try:
                hp = pse.Engine(facts).run(hb)
                rets = [q for q in hp if q.outcome == "return"]
                return len(rets) == 1 and parallel_table(facts, hp, rets[0].ret, ("deref", ("param", 1)), time_field)
            finally:
                _depth[0] -= 1
    return False


_depth = [0]


def comparator_ok(ctx, facts, rule, callterm, site, tba_roles_kf):
    """R2: comparator compares a.<time> with b.<time> through a total order, ascending"""
    cmp_ = callterm[2][1] if len(callterm[2]) > 1 else None
    cb, first = callable_body(facts, cmp_)
    if cb is None:
        ctx.ob(rule, "comparator", False, "sort comparator is neither a closure literal nor a function of the workspace: %s"
               % show(cmp_), site, what="comparator-not-closure")
        return
    eng = pse.Engine(facts)
    paths = eng.run(cb)
    ctx.count_paths(paths, cb)
    tname = tba_roles_kf["time"]
    ok = len(paths) == 1
    detail = ""
    if ok:
        r = paths[0].ret
        a = ("field", ("deref", ("param", first)), tname)
        b = ("field", ("deref", ("param", first + 1)), tname)
        ok = r[0] == "call" and r[1] == "core::f32::<impl f32>::total_cmp" and r[2] == (("&", a), ("&", b))
        detail = show(r)
    ctx.ob(rule, "comparator[%s]" % cb["path"], ok,
           "keyframe sort comparator must be f32::total_cmp(&a.%s, &b.%s) (total order, ascending); it is %s"
           % (tname, tname, detail or "%d paths" % len(paths)), cb["span"], what="comparator-not-total-ascending")


def check_builder(ctx, facts, body, rule="R1", TBA=TBA, KEYFRAME=KEYFRAME):
    """R1: every order-derived component of the result is computed from the *sorted* keyframes"""
    adt = facts.adt(TBA)
    roles = field_roles(adt, {
        "keyframes": lambda t: t.startswith("alloc::vec::Vec<") and "Keyframe" in t,
        "boundary": lambda t: t == "alloc::vec::Vec<f32>",
    })
    kf_roles = field_roles(facts.adt(KEYFRAME), {"time": lambda t: t == "f32"})
    eng = pse.Engine(facts)
    paths = eng.run(body)
    ctx.count_paths(paths, body)
    n = 0
    for p in paths:
        if p.outcome != "return":
            continue
        aggs = [x for x in subterms(p.ret) if x[0] == "agg" and x[1] == "adt" and x[2] == TBA]
        if not aggs:
            continue
        n += 1
        agg = aggs[0]
        f = dict(agg[4])
        K = f[roles["keyframes"]]
        inst = body["path"]
        st = sorted_term(K)
        if st is None:
            ctx.ob(rule, inst + "/sorted", False,
                   "the keyframes stored in the builder arguments are not the result of a sort: %s" % show(K),
                   body["span"], trace_of(p), what="keyframes-not-sorted")
            continue
        callterm, X = st
        ctx.ob(rule, inst + "/sorted", True, "keyframes = sort(%s)" % show(X), body["span"])
        # keyframes that share a position are consecutive keyframes in the order they were given (a step): the sort must keep
        # equal elements in their relative order
        ctx.ob(rule, inst + "/sort-stable", "unstable" not in callterm[1],
               "the keyframe sort must be stable (keyframes at one position keep the order in which they were given); it is %s"
               % callterm[1], body["span"], trace_of(p), what="sort-not-stable")
        # nothing that depends on the insertion order may happen before the sort: its input is the configuration's own
        # keyframe vector, unmodified (no element rewritten, nothing derived from "the first / the last added")
        src = X
        while src[0] == "deref":
            src = src[1]
        pristine = src[0] == "field" and src[1] in (("param", 1), ("deref", ("param", 1))) and \
            not [e for e in p.events if e["kind"] == "store" and pse.contains(("x", e.get("cell"), e.get("path")), ("param", 1))
                 and e["seq"] < min([c["seq"] for c in p.events if c["kind"] == "call" and c["callee"] in SORTS] or [10 ** 9])]
        pre_mut = [e["callee"] for e in p.events if e["kind"] == "call" and e["callee"] not in SORTS
                   and e["seq"] < min([c["seq"] for c in p.events if c["kind"] == "call" and c["callee"] in SORTS] or [10 ** 9])
                   and any(a[0] == "ref" and a[3] for a in e["args"])]
        ctx.ob(rule, inst + "/sort-input-pristine", pristine and not pre_mut,
               "the sort must be applied to the configuration's keyframes as they were given - nothing may be rewritten or "
               "derived from the insertion order before it; input %s, mutating calls before the sort: %s"
               % (show(X)[:160], pre_mut), body["span"], trace_of(p), what="order-dependent-step-before-sort")
        comparator_ok(ctx, facts, "R2" if rule == "R1" else rule, callterm, body["span"], kf_roles)
        for name, v in agg[4]:
            if name == roles["keyframes"]:
                continue
            # replace occurrences of K; what remains must not depend on the unsorted vector X
            stale = _mentions_outside(v, X, K)
            derived = mentions(v, lambda x: x == K)
            if name == roles["boundary"]:
                # exactly one entry per keyframe, in keyframe order: collect(map(iter(&K), |k| k.<time>)) and nothing else
                # (the per-property index maps have one entry per keyframe; the two must stay parallel)
                okimg = parallel_table(facts, paths, v, K, kf_roles["time"])
                ctx.ob(rule, inst + "/boundary-parallel-to-keyframes", okimg,
                       "boundary_times must hold exactly one entry per keyframe - the keyframe's position, in keyframe "
                       "order (collect(map(iter(&keyframes), |k| k.%s))); any filtering, de-duplication or later mutation "
                       "breaks the correspondence with the per-property index maps; it is %s" % (kf_roles["time"], show(v)[:300]),
                       body["span"], trace_of(p), what="boundary-table-not-parallel")
                if v[0] == "loop" and okimg:
                    derived, stale = True, False     # form B: filled from K inside the loop (shown by parallel_table)
                ctx.ob(rule, inst + "/boundary-from-sorted", derived and not stale,
                       "boundary_times must be derived from the keyframes *after* they were sorted; it is %s"
                       % show(v), body["span"], trace_of(p),
                       what="derived-before-sort" if stale else "not-derived-from-keyframes")
            else:
                ctx.ob(rule, inst + "/field[%s]" % name, not stale,
                       "field %s depends on the keyframe order before sorting: %s" % (name, show(v)),
                       body["span"], trace_of(p), what="derived-before-sort")
    return n


def _mentions_outside(v, X, K):
    if v == K:
        return False
    if v == X:
        return True
    if isinstance(v, tuple):
        return any(_mentions_outside(c, X, K) for c in v if isinstance(c, tuple))
    return False


def check_generated_build(ctx, facts, body, rule="R3"):
    """R3: generated build takes frames and boundary table from the same (sorted) arguments"""
    eng = pse.Engine(facts)
    paths = eng.run(body)
    ctx.count_paths(paths, body)
    n = 0
    for p in paths:
        if p.outcome != "return":
            continue
        n += 1
        fk = calls(p, lambda e: e["fn"]["name"] == "from_keyframes" and "SubTimeline" in e["callee"])
        Ks = {e["descs"][0] for e in fk}
        inst = body["path"]
        if not fk:
            ctx.ob(rule, inst + "/sub-timelines", False, "generated build creates no sub-timeline", body["span"],
                   what="no-from-keyframes")
            continue
        ok = len(Ks) == 1
        K = next(iter(Ks))
        # the source is either the sorted vector itself (conversion inlined) or the keyframes field of the value the
        # conversion returns (conversion not inlined, e.g. because it contains a loop; R1 decides the conversion)
        adt = facts.adt(TBA)
        roles = field_roles(adt, {
            "keyframes": lambda t: t.startswith("alloc::vec::Vec<") and "Keyframe" in t,
            "boundary": lambda t: t == "alloc::vec::Vec<f32>",
        })
        ARGS = None
        if ok and K[0] == "&" and K[1][0] == "field" and K[1][2] == roles["keyframes"] and K[1][1][0] == "call" and \
                K[1][1][1].startswith("<%s<" % TBA) and K[1][1][1].endswith("::from"):
            ARGS = K[1][1]
        ok = ok and K[0] == "&" and (sorted_term(K[1]) is not None or ARGS is not None)
        ctx.ob(rule, inst + "/frames-from-sorted", ok,
               "every sub-timeline must be built from the one sorted keyframe vector; sources: %s"
               % [show(k) for k in Ks], body["span"], trace_of(p), what="frames-not-from-sorted-args")
        if not ok:
            continue
        Kv = K[1]
        # the boundary table stored in the timeline derives from the same vector
        ret = p.ret
        if ARGS is not None:
            want = ("field", ARGS, roles["boundary"])
            bts = [v for x in subterms(ret) if x[0] == "agg" and x[1] == "adt" for nme, v in x[4] if v == want]
            okb = len(bts) == 1
        else:
            # the Vec<f32> field(s) of the returned timeline struct
            bts = []
            for x in subterms(ret):
                if x[0] == "agg" and x[1] == "adt" and x[2] in facts.adts:
                    tys = {f["name"]: f["ty"] for f in facts.adts[x[2]]["variants"][0]["fields"]}
                    bts += [v for nme, v in x[4] if tys.get(nme) == "alloc::vec::Vec<f32>"]
            okb = bool(bts) and all((mentions(v, lambda y: y == Kv) and not _mentions_outside(v, sorted_term(Kv)[1], Kv))
                                    or v[0] == "loop" for v in bts)
        ctx.ob(rule, inst + "/boundary-same-args", okb,
               "the boundary table of the generated timeline must come from the same sorted arguments as its frames",
               body["span"], trace_of(p), what="boundary-from-other-source")
    return n


def rule_append_only(ctx, F, rule="R4"):
    """TimelineConfiguration::keyframe only appends"""
    kb = F.one(crate="mina_core", name="keyframe", impl_trait="mina_core::timeline::TimelineConfigurationBuilder")
    eng = pse.Engine(F)
    paths = eng.run(kb)
    ctx.count_paths(paths, kb)
    for p in paths:
        if p.outcome != "return":
            continue
        muts = [e for e in p.events if e["kind"] == "call" and any(a[0] == "ref" and a[3] for a in e["args"])]
        ok = len(muts) == 1 and muts[0]["callee"].startswith("alloc::vec::Vec::<T, A>::push") or \
            (len(muts) == 1 and muts[0]["callee"].startswith("alloc::vec::Vec::<T>::push"))
        ctx.ob(rule, kb["path"] + "/append-only", ok,
               "TimelineConfiguration::keyframe must only append (one Vec::push); mutating calls: %s"
               % [m["callee"] for m in muts], kb["span"], trace_of(p), what="keyframe-not-append-only")


def check(ctx):
    F = ctx.facts
    bs = [b for b in builders_of(F, TBA) if ctx.facts.body_unit[b["id"]][0] == "mina_core"]
    ctx.floor("R1", "constructors of TimelineBuilderArguments", len(bs), 1)
    nsorted = 0
    for b in bs:
        nsorted += check_builder(ctx, F, b)
    ctx.floor("R1", "return paths building TimelineBuilderArguments", nsorted, 1)
    # R3: derive uses compiled by the repository's own build (+ witness family, see witness.py)
    gens = F.find(name="build", impl_trait="mina_core::timeline::TimelineBuilder")
    gens = [g for g in gens if "TimelineConfiguration" in g.get("impl_self", "")]
    ctx.floor("R3", "generated/hand-written TimelineBuilder::build bodies in /repo", len(gens), 2)
    for g in gens:
        check_generated_build(ctx, F, g)
    try:
        import witness
        for g in witness.derive_bodies(ctx, name="build", impl_trait="mina_core::timeline::TimelineBuilder"):
            check_generated_build(ctx, g["_facts"], g)
    except ImportError:
        ctx.notes.append("witness family not built yet: R3 checked on the repository's own derive uses only")
    rule_append_only(ctx, F, "R4")
    ctx.notes.append("not decided: ties at equal positions (excluded by the property)")
    ctx.assumptions.append("slice::sort_by with a total comparator yields a permutation sorted by that comparator")


def controls(ctx, F):
    b = F.one(crate="witness_controls", name="ctl_from")
    check_builder(ctx, F, b, "R1", TBA="witness_controls::order::CtlArgs", KEYFRAME="witness_controls::order::CtlKeyframe")
    return [("R1", "derived-before-sort", "constructor that derives the search table before sorting")]
