"""Decision table of MappedTimelineAnimator::set_state (helpers inlined), shared by C04 and C05.

The anchor type can be overridden (positive controls use their own copy of the animator)."""
from facts import AnchorLost
from rulelib import field_roles, decided, calls, is_trait_call, stores, trace_of, is_none, is_some, mentions
import pse
from pse import show

ANIM_ADT = "mina_core::animator::MappedTimelineAnimator"
TL_TRAIT = "mina_core::timeline::Timeline"
SA_TRAIT = "mina_core::animator::StateAnimator"


MIRRORS = {}     # {(adt path, time field): [fields proved to mirror it as f32 seconds]}


def roles_of(facts, adt_path=ANIM_ADT):
    adt = facts.adt(adt_path)
    spec = {
        "timelines": lambda t: t == "TimelineMap",
        "current_state": lambda t: t == "State",
        "current_values": lambda t: "Target" in t and "Option" not in t,
        "pause": lambda t: t.startswith("core::option::Option<(State") and "Target" not in t,
        # the accumulated time in the current state: whatever representation it has (C06 judges the representation)
        "time": lambda t: t in ("core::time::Duration", "f32", "f64", "u64", "u128"),
    }
    try:
        return field_roles(adt, spec)
    except AnchorLost:
        # one Duration clock plus f32 fields that provably *mirror* it (every function that writes either stores
        # as_secs_f32 of the value it stores in the clock): the mirror is a cache of the clock, not a second clock
        fields = adt["variants"][0]["fields"]
        clocks = [f["name"] for f in fields if f["ty"] == "core::time::Duration"]
        floats = [f["name"] for f in fields if f["ty"] == "f32"]
        others = [f["name"] for f in fields if spec["time"](f["ty"]) and f["name"] not in clocks + floats]
        if len(clocks) != 1 or not floats or others or not all(prove_mirror(facts, adt_path, clocks[0], m) for m in floats):
            raise
        spec["time"] = lambda t: t == "core::time::Duration"
        R = field_roles(adt, spec)
        for i, m in enumerate(floats):
            R["time-mirror-%d" % i] = m
        MIRRORS[(adt_path, clocks[0])] = list(floats)
        return R


def prove_mirror(facts, adt_path, T, M):
    """True when on every returning path of every function that may write field T (a Duration) or field M (an f32) of
    the struct, the final M is `Duration::as_secs_f32(&final T)` (or both are untouched / both zero).  Fail-closed: a
    writer that is not a method of the type with the receiver first, a borrow-mut, or an unreadable value gives False."""
    from rulelib import field_writers
    fw = field_writers(facts, adt_path)
    writers = {}
    for f in (T, M):
        for path, kinds in fw.get(f, {}).items():
            writers.setdefault(path, set()).update(kinds)
    if not writers:
        return False
    bodies = {b["path"]: b for b in facts.find(impl_self_adt=adt_path) if not b.get("impl_exp")}
    self_cell = ("M", ("param", 1))
    init = lambda f: ("field", ("deref", ("param", 1)), f)
    for path, kinds in writers.items():
        b = bodies.get(path)
        if b is None or "borrow-mut" in kinds:
            return False
        eng = engine(facts)
        for p in eng.run(b):
            if p.outcome != "return":
                continue
            if "ctor" in kinds:
                if p.ret[0] != "agg" or p.ret[2] != adt_path:
                    return False
                vals = dict(p.ret[4])
                t, m = vals.get(T), vals.get(M)
            else:
                t = eng.read_loc(p, self_cell, (("field", T),))
                m = eng.read_loc(p, self_cell, (("field", M),))
            if t is None or m is None:
                return False
            if t == init(T) and m == init(M):
                continue
            if is_zero_time(t) and is_zero_time(m):
                continue
            if m == ("call", "core::time::Duration::as_secs_f32", (("&", t),)):
                continue
            return False
    return True


def is_zero_time(t):
    if pse.is_const(t):
        v = t[2]
        if isinstance(v, tuple) and v[0] == "f":
            return v[2] == 0.0
        if isinstance(v, int) and not isinstance(v, bool):
            return v == 0
        return "Duration::ZERO" in str(v)
    return False


def as_seconds(t):
    """accepted readings of the accumulated time as f32 seconds: Duration::as_secs_f32(&t), t itself, t as f32"""
    out = (("call", "core::time::Duration::as_secs_f32", (("&", t),)), t, ("cast", "FloatToFloat", t, "f32"))
    # a proved mirror field of the clock, read from the same object, is the clock in seconds
    if t[0] == "field":
        for (adt, clock), ms in MIRRORS.items():
            if t[2] == clock:
                out += tuple(("field", t[1], m) for m in ms)
    return out


class Row:
    pass


def entry_decision(p, R, keyterm):
    """first decision taken on this path about whether the timelines map has an entry under keyterm"""
    for (t, v, s) in p.conds:
        d = t
        if t[0] == "bin" and t[1] == "Eq" and t[2][0] == "discr" and pse.is_const(t[3]):
            d = t[2]
            v = v if t[3][2] == 1 else 1 - v
        if d[0] == "discr" and d[1][0] == "proj" and d[1][2] == ("entry", keyterm) and \
                pse.contains(d[1][1], ("field", ("deref", ("param", 1)), R["timelines"])):
            return v
    return None


def engine(facts, inline=None, **kw):
    """the animator rules reason about *calls* to Timeline methods: implementations of the trait are never inlined
    (whether one happens to be loop-free, and so inlinable, is an accident of how it is written)"""
    return pse.Engine(facts, inline=lambda fn, b: b.get("impl_trait") != TL_TRAIT and (inline is None or inline(fn, b)), **kw)


def build(ctx, facts=None, adt_path=ANIM_ADT, trait=SA_TRAIT, crate="mina_core"):
    facts = facts or ctx.facts
    R = roles_of(facts, adt_path)
    body = facts.one(name="set_state", impl_self_adt=adt_path, impl_trait=trait)
    eng = engine(facts)
    paths = eng.run(body)
    ctx.count_paths(paths, body)
    self_cell = ("M", ("param", 1))
    target = ("deref", ("param", 2))
    init = lambda role: ("field", ("deref", ("param", 1)), R[role])
    rows = []
    for p in paths:
        r = Row()
        r.path = p
        r.outcome = p.outcome

        def p_same(t):
            return t[0] == "bin" and t[1] == "Eq" and {t[2], t[3]} == {target, init("current_state")}
        r.same = decided(p, p_same)

        def p_rec(t):
            return t[0] == "discr" and t[1] == init("pause")
        r.has_record = decided(p, p_rec)

        def p_match(t):
            if t[0] != "bin" or t[1] != "Eq":
                return False
            for a, b in ((t[2], t[3]), (t[3], t[2])):
                if a == target and mentions(b, lambda x: x == init("pause")) and not mentions(b, lambda x: x[0] == "call"):
                    return True
            return False
        r.rec_matches = decided(p, p_match)

        has_tl = lambda keyterm: entry_decision(p, R, keyterm)
        r.cur_animated = has_tl(init("current_state"))
        r.tgt_animated = has_tl(target)
        r.resume = (r.has_record == 1 and r.rec_matches == 1)
        r.final = {role: eng.read_loc(p, self_cell, (("field", R[role]),)) for role in R}
        r.init = {role: init(role) for role in R}
        r.updates = calls(p, lambda e: is_trait_call(e, TL_TRAIT, "update"))
        r.starts = calls(p, lambda e: is_trait_call(e, TL_TRAIT, "start_with"))
        r.stores = stores(p, self_cell)
        r.all_calls = calls(p, lambda e: True)
        r.label = "same=%s record=%s matches=%s cur_animated=%s target_animated=%s" % (
            r.same, r.has_record, r.rec_matches, r.cur_animated, r.tgt_animated)
        rows.append(r)
    return {"rows": rows, "roles": R, "engine": eng, "body": body, "self_cell": self_cell, "target": target}


def entry_payload_ref(tab, ev_arg, keyterm):
    """is ev_arg a reference to the timeline stored under keyterm in self.timelines?"""
    R = tab["roles"]
    if ev_arg[0] != "ref" or ev_arg[1] != tab["self_cell"]:
        return False
    p = ev_arg[2]
    return len(p) >= 2 and p[0] == ("field", R["timelines"]) and p[1] == ("entry", keyterm)


def is_ref_to_field(tab, ev_arg, role):
    return ev_arg[0] == "ref" and ev_arg[1] == tab["self_cell"] and ev_arg[2] == (("field", tab["roles"][role]),)


def time_arg_ok(tab, row, ev):
    """third argument of update is <final state_duration>.as_secs_f32()"""
    return ev["descs"][2] in as_seconds(row.final["time"])


# ---------------------------------------------------------------------------------------------------
def rules_c04(ctx, tab, tag=""):
    rows = tab["rows"]
    body = tab["body"]
    site = body["span"]
    n_same = 0
    for r in rows:
        if r.outcome != "return":
            ctx.ob("R0" + tag, "row[%s]/returns" % r.label, False, "set_state row does not return normally: %s" % r.outcome,
                   site, trace_of(r.path))
            continue
        if r.same != 1 and (r.stores or r.all_calls):
            # "setting the state the animator is already in changes nothing at all": every row that has an effect must
            # have established that the requested state differs from the current one
            ctx.ob("R1" + tag, "row[%s]/effects-only-for-a-different-state" % r.label, r.same == 0,
                   "this row has effects (%d store(s), %d call(s)) without having tested that the requested state differs "
                   "from the current one - it is also taken when the state is set to itself"
                   % (len(r.stores), len(r.all_calls)), site, trace_of(r.path), what="same-state-not-excluded")
        if r.same == 1:
            n_same += 1
            ok = not r.stores and not r.all_calls
            ctx.ob("R1" + tag, "row[same-state]", ok,
                   "setting the current state must have no effect (no store, no call); found %d store(s), %d call(s)"
                   % (len(r.stores), len(r.all_calls)), site, trace_of(r.path), what="same-state-has-effects")
            continue
        # R2: current_state := target, then exactly one update of the target's timeline at the final time
        ok_state = r.final["current_state"] == tab["target"]
        ctx.ob("R2" + tag, "row[%s]/current_state" % r.label, ok_state,
               "current_state at exit is %s, expected the requested state" % show(r.final["current_state"]),
               site, trace_of(r.path), what="current-state-not-target")
        if r.tgt_animated == 1:
            ups = r.updates
            ok = len(ups) == 1 and entry_payload_ref(tab, ups[0]["args"][0], tab["target"]) \
                and is_ref_to_field(tab, ups[0]["args"][1], "current_values") and time_arg_ok(tab, r, ups[0])
            if ok:
                # the update must come after the stores to current_state / state_duration
                last_store = max([s["seq"] for s in r.stores] + [-1])
                ok = ups[0]["seq"] > last_store
            ctx.ob("R2" + tag, "row[%s]/final-update" % r.label, ok,
                   "row must end with exactly one Timeline::update(timeline of the new state, &mut current_values, "
                   "state_duration.as_secs_f32()); found %s"
                   % [(u["callee"], [show(d) for d in u["descs"]]) for u in ups], site, trace_of(r.path),
                   what="final-update-missing-or-wrong")
        elif r.tgt_animated == 0:
            ctx.ob("R2" + tag, "row[%s]/no-update" % r.label, not r.updates,
                   "target state has no timeline, nothing may be evaluated", site, trace_of(r.path),
                   what="update-without-timeline")
        if r.resume:
            # R4: resume = time taken from the record and from nothing else, no re-blend
            rec_pos_ok = mentions(r.final["time"], lambda x: x == r.init["pause"]) and \
                not mentions(r.final["time"], lambda x: x[0] in ("call", "bin"))
            ctx.ob("R4" + tag, "row[%s]/resume-time" % r.label, rec_pos_ok,
                   "on resume state_duration must be the remembered position; it is %s" % show(r.final["time"]),
                   site, trace_of(r.path), what="resume-time-wrong")
            ctx.ob("R4" + tag, "row[%s]/resume-no-blend" % r.label, not r.starts,
                   "on resume the timeline must not be re-blended (no start_with)", site, trace_of(r.path),
                   what="resume-reblends")
            continue
        if r.tgt_animated == 1:
            # R3: blend from the live current values, then restart from zero
            st = r.starts
            ok = len(st) == 1 and entry_payload_ref(tab, st[0]["args"][0], tab["target"]) \
                and is_ref_to_field(tab, st[0]["args"][1], "current_values") \
                and st[0]["descs"][1] == ("&", r.init["current_values"]) \
                and (not r.updates or st[0]["seq"] < r.updates[0]["seq"])
            ctx.ob("R3" + tag, "row[%s]/blend" % r.label, ok,
                   "a (re)started animation must be blended: Timeline::start_with(timeline of the new state, "
                   "&self.current_values) before the update; found %s"
                   % [(u["callee"], [show(d) for d in u["descs"]]) for u in st], site, trace_of(r.path),
                   what="blend-missing-or-wrong")
            zero = r.final["time"]
            okz = is_zero_time(zero)
            ctx.ob("R3" + tag, "row[%s]/time-zero" % r.label, okz,
                   "a (re)started animation starts at time zero; state_duration is %s" % show(zero), site,
                   trace_of(r.path), what="restart-time-not-zero")
            # R5: no stale resume (F2)
            fin = r.final["pause"]
            ok5 = is_none(fin) or (fin == r.init["pause"] and r.has_record == 0)
            ctx.ob("R5" + tag, "row[%s]/discard-record" % r.label, ok5,
                   "entering an animated state other than the remembered one must discard the pause record "
                   "(otherwise a later return resumes a stale position and start value); record at exit: %s"
                   % show(fin), site, trace_of(r.path), what="stale-pause-record-kept")
    ctx.ob("R1" + tag, "table/same-state-row-exists", n_same >= 1,
           "the same-state early return must exist (%d row(s))" % n_same, site, what="no-same-state-row")
    ctx.floor("table" + tag, "set_state rows", len(rows), 3)


def rules_c05(ctx, tab, tag=""):
    rows = tab["rows"]
    site = tab["body"]["span"]
    for r in rows:
        if r.outcome != "return" or r.same == 1 or r.resume:
            continue
        # fail closed: a row that is neither the same-state return nor a resume must know whether the requested state has
        # a timeline, and - when it has none - whether an animation is being interrupted (otherwise nothing below applies)
        ctx.ob("R1" + tag, "row[%s]/target-decided" % r.label, r.tgt_animated in (0, 1),
               "the transition must find out whether the requested state has a timeline", site, trace_of(r.path),
               what="target-timeline-not-decided")
        if r.tgt_animated == 0:
            ctx.ob("R1" + tag, "row[%s]/interruption-decided" % r.label, r.cur_animated in (0, 1),
                   "entering a state without timeline must find out whether the state being left was animated (to "
                   "remember the interrupted animation); this row never looks", site, trace_of(r.path),
                   what="interruption-not-decided")
        if r.cur_animated == 1 and r.tgt_animated == 0:
            fin = r.final["pause"]
            ok = is_some(fin) and fin[4][0][1][0] == "agg" and \
                tuple(v for _, v in fin[4][0][1][4]) == (r.init["current_state"], r.init["time"])
            ctx.ob("R1" + tag, "row[%s]/pause-record" % r.label, ok,
                   "leaving an animated state for an un-animated one must remember (state, time) as they were "
                   "before the switch; record at exit: %s" % show(fin), site, trace_of(r.path),
                   what="pause-record-wrong")
        if r.cur_animated == 0 and r.tgt_animated == 0:
            ctx.ob("R2" + tag, "row[%s]/record-untouched" % r.label, r.final["pause"] == r.init["pause"],
                   "moving between un-animated states must keep the pause record; at exit: %s"
                   % show(r.final["pause"]), site, trace_of(r.path), what="pause-record-lost")
        if r.tgt_animated == 0:
            ctx.ob("R2" + tag, "row[%s]/values-frozen" % r.label,
                   r.final["current_values"] == r.init["current_values"],
                   "entering a state without timeline must leave current_values alone", site, trace_of(r.path),
                   what="values-touched")
