"""C02 - keyframe, start and end values are reached exactly and held (DESIGN.md section 5, C02)."""
from rules import timescale_table as TT
from rules import c10, c14, c01
from rulelib import trace_of
import pse
import terms
import intervals
from pse import show


def rule_hold(ctx, tab, rule="R2"):
    """on exact cycle multiples (rem == 0, quot >= 1) the cycle time is the duration itself -> ratio 1"""
    S, D = tab["S"], tab["D"]
    one = ("const", "f32", ("f", 0x3F800000, 1.0))
    quot = ("bin", "Div", S, D, "f32")
    n = 0
    for r in tab["rows"]:
        if r.kind != "Active" or r.env.infeasible:
            continue
        rem0 = [v for (t, v, s) in r.path.conds if t[0] == "bin" and t[1] == "Eq" and t[2] == ("bin", "Rem", S, D, "f32")
                and intervals.fval(t[3]) == 0.0]
        ge1 = [v for (t, v, s) in r.path.conds if t == pse.mk_bin("Le", one, quot)]
        if rem0 == [1] and ge1 == [1]:
            n += 1
            e = terms.exact(r.pos)
            want = 0.0 if r.reverse == 1 else 1.0
            ctx.ob(rule, "hold/" + r.label, intervals.fval(e) == want,
                   "at an exact cycle multiple the position must be held at the end of the pass: exact rewriting "
                   "(d/d -> 1 for finite d > 0) of %s gives %s, expected %s" % (show(r.pos), show(e), want),
                   tab["body"]["span"], trace_of(r.path), what="end-of-pass-not-held")
    ctx.floor(rule, "hold rows (rem == 0 and quot >= 1)", n, 2)
    # and the rule must exist for every repeating variant: a repeating row whose cycle time is the plain remainder
    # must be guarded by "not an exact multiple, or still in the first cycle"
    for r in tab["rows"]:
        if r.kind != "Active" or r.repeat not in ("Times", "Infinite") or r.env.infeasible:
            continue
        uses_rem = pse.contains(r.pos, ("bin", "Rem", S, D, "f32"))
        if uses_rem:
            rem0 = [v for (t, v, s) in r.path.conds if t[0] == "bin" and t[1] == "Eq" and t[2] == ("bin", "Rem", S, D, "f32")]
            ge1 = [v for (t, v, s) in r.path.conds if t == pse.mk_bin("Le", one, quot)]
            # decided on the path: not (exact multiple and a completed cycle), in either order of the two tests
            ok = rem0 == [0] or ge1 == [0]
            ctx.ob(rule, "wrap-guarded/" + r.label, ok,
                   "the position may wrap to the remainder only when the time is not an exact cycle multiple (or the "
                   "first cycle has not completed): otherwise 100%% is never shown", tab["body"]["span"],
                   trace_of(r.path), what="wraps-before-end-value")


def rule_ended(ctx, tab, rule="R3"):
    """Ended -> constant 0.0 iff reverse else 1.0"""
    n = 0
    for r in tab["rows"]:
        if r.kind != "Ended":
            continue
        n += 1
        want = 0.0 if r.reverse == 1 else 1.0
        ctx.ob(rule, "ended-position/" + r.label, intervals.fval(r.pos) == want and r.reverse in (0, 1),
               "the terminal position must be the constant %s (reverse=%s); it is %s" % (want, r.reverse, show(r.pos)),
               tab["body"]["span"], trace_of(r.path), what="terminal-position-wrong")
    ctx.floor(rule, "Ended rows", n, 2)


def check(ctx):
    F = ctx.facts
    tab = TT.build(ctx)
    c14.rule_endpoints(ctx, F, "R1")
    c01.rule_zero_length(ctx, F, "R1")
    rule_hold(ctx, tab, "R2")
    rule_ended(ctx, tab, "R3")
    c10.rules_prepare_frame(ctx, "R3")
    # "at or after the total duration the terminal value is produced": the end test agrees with the reported duration
    from rules import c03
    c03.rule_duration_formula(ctx, "R3", tab)
    # a keyframe value can only be reached exactly if the lookup tables line up: every sub-timeline ends with a held frame
    # at 100 % (splitter) and the generated timeline searches the builder arguments' own boundary table (derive wiring)
    c01.rule_split(ctx, F, "R4")
    c01.rule_lookup(ctx, F, "R4", "R4")
    c01.rule_search(ctx, F, "R4")            # the frame is found by a search for the position in every phase      # at and after the last frame the lookup yields that frame (the value is held)
    from rules import derive_rules
    derive_rules.rule_wiring(ctx, "R4")
    # a merged timeline produces these values only if it applies every component on every evaluation - before a component's
    # delay (its 0% value) as well as after its end (its terminal value) (C12/R1)
    from rules import c12
    c12.check_loop_method(ctx, F, "R6", "update", mutable=False)
    # the value at a keyframe is exact only if the segment's easing maps 0 to 0 and 1 to 1 exactly (C13/R1-R3)
    from rules import c13
    c13.include_endpoints(ctx, "R5")
    ctx.notes.append("not decided: 'within a few ulps' at interior keyframes (needs ease(1) = 1 and division rounding), "
                     "every cycle k (periodicity of % in floats)")
    ctx.assumptions += ["cycle duration finite > 0", "values representable in f32 (the property's premise)"]


def controls(ctx, F):
    from rules import c03
    tab = TT.build(ctx, F, adt=c03.CTL_TS)
    rule_hold(ctx, tab, "R2")
    rule_ended(ctx, tab, "R3")
    return [("R2", "wraps-before-end-value", "time scale copy without the hold-at-100% rule"),
            ("R3", "terminal-position-wrong", "time scale copy whose reversing timelines end at 1.0")]
