"""C19 - bevy selector / chain: key changes blend smoothly and chains advance on end (DESIGN.md section 5, C19)."""
from rulelib import trace_of, calls, is_trait_call, field_roles
from rules import c18
import pse
from pse import show, subterms

SELECTOR = "bevy_mina::selection::AnimationSelector"
CHAIN = "bevy_mina::selection::AnimationChain"
EVENT = "bevy_mina::animator::AnimationStateChanged"
TL = "mina_core::timeline::Timeline"


def sel_roles(F):
    return field_roles(F.adt(SELECTOR), {
        "timelines": lambda t: "HashMap<" in t,
        "key": lambda t: t == "K",
        "prev": lambda t: t == "core::option::Option<K>",
    })


def loop_rows(eng, body):
    out = []
    for p in eng.run(body):
        nx = calls(p, lambda e: e["fn"]["name"] == "next" and e["fn"].get("trait", "").endswith("Iterator"))
        if not nx:
            continue
        took = [v for (t, v, s) in p.conds if t[0] == "discr" and t[1] == nx[0]["result"]]
        if took == [1]:
            out.append((p, ("field", ("variant", nx[0]["result"], "Some"), "0")))
    return out


def rule_select(ctx, F, rule="R1"):
    R = sel_roles(F)
    AR = c18.roles(F)
    body = F.one(crate="bevy_mina", name="select_animation")
    eng = pse.Engine(F)
    rows = loop_rows(eng, body)
    ctx.count_paths([p for p, _ in rows], body)
    site = body["span"]
    n_restart = 0
    for p, item in rows:
        entity, comp, selp = ("field", item, "0"), ("field", item, "1"), ("field", item, "2")
        scell = ("M", selp)
        S0 = ("deref", selp)
        f0 = lambda role: ("field", S0, R[role])
        has_prev = next((v for (t, v, s) in p.conds if t[0] == "discr" and t[1] == f0("prev")), None)
        same = None
        for (t, v, s) in p.conds:
            if t[0] == "bin" and t[1] == "Eq" and {t[2], t[3]} == {("field", ("variant", f0("prev"), "Some"), "0"), f0("key")}:
                same = v
        lab = "row[prev=%s same=%s|%s]" % (has_prev, same, ",".join(str(v) for (_, v, _) in p.conds[3:]))
        stores = [e for e in p.events if e["kind"] == "store"]
        effects = stores + calls(p, lambda e: e["fn"]["name"] in ("start_with", "update", "get_mut", "clone_box"))
        if has_prev == 1 and same == 1:
            ctx.ob(rule, lab + "/same-key-no-restart", not effects and p.outcome == "backedge",
                   "re-assigning the current key must not restart anything (effects: %d)" % len(effects), site, trace_of(p),
                   what="same-key-restarts")
            continue
        n_restart += 1
        # fail closed: "re-assigning the current key does not restart anything" - a row that restarts must have found that
        # no key was applied yet or that the applied key differs from the current one
        ctx.ob(rule, lab + "/restart-only-for-a-new-key", has_prev == 0 or (has_prev == 1 and same == 0),
               "this row (re)starts the animation without having compared the key with the one applied last "
               "(previous key present: %s, equal: %s)" % (has_prev, same), site, trace_of(p), what="same-key-not-excluded")
        prev_fin = eng.read_loc(p, scell, (("field", R["prev"]),))
        ctx.ob(rule, lab + "/remember-key", prev_fin == pse.mk_some(f0("key")),
               "the selector must remember the key it has applied (previous_key := Some(key)); it is %s" % show(prev_fin)[:160],
               site, trace_of(p), what="key-not-remembered")
        key_fin = eng.read_loc(p, scell, (("field", R["key"]),))
        ctx.ob(rule, lab + "/key-untouched", key_fin == f0("key"), "select_animation must not change the key", site,
               trace_of(p), what="select-changes-key")
        gm = calls(p, lambda e: e["fn"]["name"] == "get_mut" and "Query" in e["callee"])
        found = None
        for (t, v, s) in p.conds:
            if gm and t[0] == "discr" and t[1] == gm[0]["result"] and not isinstance(v, tuple):
                found = {int(d): n for n, d in t[2]}.get(v)
        if gm:
            ctx.ob(rule, lab + "/animator-of-same-entity", gm[0]["descs"][1] == entity,
                   "the animator looked up must belong to the same entity as the selector", site, trace_of(p),
                   what="wrong-entity")
        sw = calls(p, lambda e: is_trait_call(e, TL, "start_with"))
        ups = calls(p, lambda e: is_trait_call(e, TL, "update"))
        if found != "Ok":
            ctx.ob(rule, lab + "/no-animator-no-effect", not sw and not ups and
                   all(e["cell"] == scell for e in stores), "without an Animator component nothing else happens", site,
                   trace_of(p), what="effects-without-animator")
            continue
        an = ("field", ("field", ("variant", gm[0]["result"], "Ok"), "0"), ) if False else None
        acell = None
        for e in stores:
            if e["cell"] != scell:
                acell = e["cell"]
        lookup = calls(p, lambda e: e["fn"]["name"] == "get" and "HashMap" in e["callee"])
        has_tl = None
        if lookup:
            okl = lookup[0]["descs"][0] == ("&", f0("timelines")) and lookup[0]["descs"][1] == ("&", f0("key"))
            ctx.ob(rule, lab + "/lookup-by-current-key", okl,
                   "the timeline must be looked up in the selector's own map under the current key", site, trace_of(p),
                   what="lookup-wrong-key")
            for (t, v, s) in p.conds:
                if t[0] == "discr" and t[1] == lookup[0]["result"]:
                    has_tl = v
        if acell is None:
            ctx.ob(rule, lab + "/animator-updated", False, "the animator is not updated", site, trace_of(p), what="animator-not-updated")
            continue
        tl_fin = eng.read_loc(p, acell, (("field", AR["timeline"]),))
        pos_fin = eng.read_loc(p, acell, (("field", AR["pos"]),))
        st_fin = eng.read_loc(p, acell, (("field", AR["state"]),))
        ok_reset = pse.is_const(pos_fin) and "Duration::ZERO" in str(pos_fin[2]) and pse.unit_variant(st_fin) and \
            pse.unit_variant(st_fin)[1] == "None"
        ctx.ob(rule, lab + "/reset", ok_reset,
               "after a key change the animator plays from the beginning (position ZERO, state None); got (%s, %s)"
               % (show(pos_fin), show(st_fin)), site, trace_of(p), what="not-reset")
        if has_tl == 1:
            cb = calls(p, lambda e: e["fn"]["name"] == "clone_box")
            ok = len(sw) == 1 and len(cb) <= 1 and tl_fin[0] == "agg" and tl_fin[3] == "Some"
            detail = ""
            if ok:
                src = ("field", ("variant", lookup[0]["result"], "Some"), "0")
                # the copy: dyn_clone::clone_box(entry), or Clone::clone of the boxed entry (the engine's clone model
                # yields the entry's own value; nothing can be moved out of the borrowed map, so it is a copy)
                if cb:
                    ok = pse.contains(cb[0]["descs"][0], src)
                    marker = cb[0]["result"]
                else:
                    marker = src
                # blended from this entity's component, before it is installed
                ok = ok and sw[0]["descs"][1] == ("&", ("deref", comp)) and pse.contains(sw[0]["descs"][0], marker)
                tl_store = [e for e in stores if e["cell"] == acell and e["path"] == (("field", AR["timeline"]),)]
                ok = ok and tl_store and sw[0]["seq"] < tl_store[0]["seq"] and pse.contains(tl_fin, marker)
                detail = "start_with(%s)" % [show(d)[:80] for d in sw[0]["descs"]]
            ctx.ob(rule, lab + "/blend-and-install", ok,
                   "the key's timeline is cloned, started from the entity's current component values (start_with(&component)) "
                   "and then installed in the animator; %s" % detail, site, trace_of(p), what="blend-missing-or-wrong")
        elif has_tl == 0:
            ok = tl_fin[0] == "agg" and tl_fin[3] == "None" and not sw and not ups
            ctx.ob(rule, lab + "/no-timeline-stops", ok,
                   "a key without timeline stops the animation (timeline := None) and leaves the component alone", site,
                   trace_of(p), what="no-timeline-key-wrong")
    ctx.floor(rule, "key-change rows of select_animation", n_restart, 2)


def rule_chain(ctx, F, rule2="R2", rule3="R3"):
    R = sel_roles(F)
    body = F.one(crate="bevy_mina", name="chain_animations")
    eng = pse.Engine(F)
    rows = loop_rows(eng, body)
    ctx.count_paths([p for p, _ in rows], body)
    site = body["span"]
    n_write = 0
    tested_fields = set()
    for p, item in rows:
        ev = ("deref", item)
        ended = None
        for (t, v, s) in p.conds:
            if t[0] == "bin" and t[1] in ("Eq", "Ne") and t[2][0] == "field" and t[2][1] == ev and pse.unit_variant(t[3]):
                tested_fields.add(t[2][2])
                if pse.unit_variant(t[3])[1] == "Ended":
                    ended = (v == 1) == (t[1] == "Eq")
            elif t[0] == "discr" and t[1][0] == "field" and t[1][1] == ev and len(t) > 2 and t[2]:
                # matches!(ev.state, AnimationState::Ended) / a match on the state
                tested_fields.add(t[1][2])
                names = {int(d): n for n, d in t[2]}
                if not isinstance(v, tuple):
                    ended = names.get(v) == "Ended"
                elif v[0] == "not" and any(names.get(int(x)) == "Ended" for x in v[1]):
                    ended = False
            elif pse.contains(t, ev):
                for x in subterms(t):
                    if x[0] == "field" and x[1] == ev:
                        tested_fields.add(x[2])
        gm = calls(p, lambda e: e["fn"]["name"] == "get_mut" and "Query" in e["callee"])
        found = None
        for (t, v, s) in p.conds:
            if gm and t[0] == "discr" and t[1] == gm[0]["result"] and not isinstance(v, tuple):
                found = {int(d): n for n, d in t[2]}.get(v)
        look = calls(p, lambda e: e["fn"]["name"] == "get" and "HashMap" in e["callee"])
        entry = None
        for (t, v, s) in p.conds:
            if look and t[0] == "discr" and t[1] == look[0]["result"]:
                entry = v
        stores = [e for e in p.events if e["kind"] == "store"]
        lab = "row[ended=%s selector=%s entry=%s]" % (ended, found, entry)
        key_writes = [e for e in stores if e["path"] == (("field", R["key"]),)]
        if key_writes:
            n_write += 1
            ok = ended is True and found == "Ok" and entry == 1 and len(key_writes) == 1 and len(stores) == 1
            if ok:
                sel = ("deref", ("field", ("field", ("variant", gm[0]["result"], "Ok"), "0"), "0"))
                ok = gm[0]["descs"][1] == ("field", ev, "entity") and \
                    look[0]["descs"][1] == ("&", ("field", sel, R["key"])) and \
                    key_writes[0]["value"] == ("deref", ("field", ("variant", look[0]["result"], "Some"), "0"))
            ctx.ob(rule2, lab + "/advance", ok,
                   "the key moves only when an Ended event arrives for an entity whose selector has a chain entry for the "
                   "current key, and it moves to that entry; wrote %s" % [show(e["value"])[:120] for e in key_writes], site,
                   trace_of(p), what="chain-fires-wrongly")
        else:
            ctx.ob(rule2, lab + "/no-advance", not stores, "otherwise the chain must do nothing", site, trace_of(p),
                   what="chain-side-effect")
            if ended is True and found == "Ok" and entry == 1:
                ctx.ob(rule2, lab + "/must-advance", False, "an Ended event with a chain entry must move the key", site,
                       trace_of(p), what="chain-does-not-fire")
    ctx.floor(rule2, "key-writing rows of chain_animations", n_write, 1)
    # R3: which animator ended? the consumed event must determine the component type (F6)
    adt = F.adt(EVENT)
    fields = adt["variants"][0]["fields"]
    discriminating = [f["name"] for f in fields
                      if any(k in f["ty"] for k in ("TypeId", "ComponentId", "PhantomData", "type_name", "&'static str"))
                      or f["ty"] in ("T",)]
    generic_event = "<" in adt["path"] or any(f["ty"] == "T" or "<T>" in f["ty"] for f in fields)
    tested = [f for f in discriminating if f in tested_fields]
    ok = generic_event or bool(tested)
    ctx.ob(rule3, "bevy_mina::selection::chain_animations/event=AnimationStateChanged", ok,
           "chain_animations::<K, T> reads AnimationStateChanged { %s }, which does not say which component's animator "
           "ended, and tests only %s: the chain also fires when an Animator of another component type on the same entity "
           "ends" % (", ".join("%s: %s" % (f["name"], f["ty"]) for f in fields), sorted(tested_fields)), site,
           what="no-component-discriminator")


def rule_registration(ctx, F, rule="R4"):
    b = F.one(crate="bevy_mina", name="register_animation_key", impl_trait="bevy_mina::AnimationAppExt")
    # helpers of the crate are followed (the ordering may be built in a private function)
    ps = pse.Engine(F, inline=lambda fn, bb: F.body_unit[bb["id"]][0] == "bevy_mina").run(b)
    ok = len(ps) == 1
    if ok:
        cs = calls(ps[0], lambda e: True)
        bef = [e for e in cs if e["fn"]["name"] == "before"]
        add = [e for e in cs if e["fn"]["name"] == "add_systems"]
        ok = len(bef) == 1 and len(add) == 1
        if ok:
            tup, target = bef[0]["descs"][0], bef[0]["descs"][1]
            names = sorted(x[2].split("::")[-1] for x in subterms(tup) if x[0] == "fn")
            ok = names == ["chain_animations", "select_animation"] and target[0] == "fn" and target[2].endswith("::animate") \
                and add[0]["descs"][2] == bef[0]["result"] and "Update" in show(add[0]["descs"][1])
    ctx.ob(rule, "register_animation_key", ok,
           "both selection systems must be added to Update ordered before animate::<T>", b["span"], what="system-ordering")


def rule_glue(ctx, F, rule="R7"):
    """constructors and builders of the selector and the chain hand the keys and timelines on unchanged: a timeline added
    under key k is found under k, the initial key is the one given, a chain entry (ended -> next) is stored as given"""
    R = sel_roles(F)
    SB = "bevy_mina::selection::AnimationSelectorBuilder"
    CB = "bevy_mina::selection::AnimationChainBuilder"
    from rules import c03
    one = c18._single_return
    # AnimationSelector::new(timelines, initial_key)
    b, p, ps = one(F, crate="bevy_mina", name="new", impl_self_adt=SELECTOR)
    ok = p is not None and p.ret[0] == "agg"
    if ok:
        f = dict(p.ret[4])
        ok = f[R["timelines"]] == ("param", 1) and f[R["key"]] == ("param", 2) and f[R["prev"]][0] == "agg" and f[R["prev"]][3] == "None"
    ctx.ob(rule, "AnimationSelector::new", ok, "new(timelines, key) must store both as given with no applied key yet",
           b["span"], what="selector-glue-wrong")
    # builder: new / add / initial_key / build
    sb = F.adt(SB)
    f_map = [f["name"] for f in sb["variants"][0]["fields"] if "HashMap<" in f["ty"]]
    f_key = [f["name"] for f in sb["variants"][0]["fields"] if f["ty"] == "K"]
    if len(f_map) != 1 or len(f_key) != 1:
        ctx.lost(rule, "AnimationSelectorBuilder", "fields (map, initial key)")
        return
    b, p, ps = one(F, crate="bevy_mina", name="add", impl_self_adt=SB)
    ok = p is not None
    if ok:
        muts = [e for e in calls(p, lambda e: True) if any(a[0] == "ref" and a[3] for a in e["args"])]
        ch = c03._changed_fields(p.ret, ("param", 1))
        ok = len(muts) == 1 and c18._is_insert(muts[0], ("&mut", ("field", ("param", 1), f_map[0])), ("param", 2),
                                               c18._boxed(("param", 3))) and ch is not None and set(ch) == {f_map[0]}
    ctx.ob(rule, "AnimationSelectorBuilder::add", ok, "add(key, timeline) must insert the timeline under that key and change "
           "nothing else", b["span"], what="selector-glue-wrong")
    b, p, ps = one(F, crate="bevy_mina", name="initial_key", impl_self_adt=SB)
    ch = c03._changed_fields(p.ret, ("param", 1)) if p is not None else None
    ctx.ob(rule, "AnimationSelectorBuilder::initial_key", ch == {f_key[0]: ("param", 2)},
           "initial_key(k) must store k as the starting key and nothing else", b["span"], what="selector-glue-wrong")
    b, p, ps = one(F, crate="bevy_mina", name="build", impl_self_adt=SB)
    ok = p is not None and p.ret[0] == "agg" and p.ret[2] == SELECTOR
    if ok:
        f = dict(p.ret[4])
        ok = f[R["timelines"]] == ("field", ("param", 1), f_map[0]) and f[R["key"]] == ("field", ("param", 1), f_key[0]) and \
            f[R["prev"]][0] == "agg" and f[R["prev"]][3] == "None"
    ctx.ob(rule, "AnimationSelectorBuilder::build", ok, "build() must hand the registered timelines and the initial key on "
           "unchanged", b["span"], what="selector-glue-wrong")
    # chain: reset_after(k) = {k -> default}; builder add(ended, next) inserts (ended, next); build hands the map on
    cm = [f["name"] for f in F.adt(CHAIN)["variants"][0]["fields"] if "HashMap<" in f["ty"]]
    b, p, ps = one(F, crate="bevy_mina", name="reset_after", impl_self_adt=CHAIN)
    ok = p is not None and p.ret[0] == "agg" and len(cm) == 1
    if ok:
        v = dict(p.ret[4])[cm[0]]
        ok = v[0] == "call" and "HashMap" in v[1] and v[1].endswith("::from") and v[2][0][0] == "agg" and v[2][0][1] == "array" and \
            len(v[2][0][4]) == 1 and tuple(x for _, x in v[2][0][4][0][1][4]) == (("param", 1), ("call", "core::default::Default::default", ()))
    ctx.ob(rule, "AnimationChain::reset_after", ok, "reset_after(k) must map exactly k to the default key", b["span"],
           what="chain-glue-wrong")
    b, p, ps = one(F, crate="bevy_mina", name="add", impl_self_adt=CB)
    cbm = [f["name"] for f in F.adt(CB)["variants"][0]["fields"] if "HashMap<" in f["ty"]]
    ok = p is not None and len(cbm) == 1
    if ok:
        muts = [e for e in calls(p, lambda e: True) if any(a[0] == "ref" and a[3] for a in e["args"])]
        ok = len(muts) == 1 and c18._is_insert(muts[0], ("&mut", ("field", ("param", 1), cbm[0])), ("param", 2),
                                               lambda v: v == ("param", 3))
    ctx.ob(rule, "AnimationChainBuilder::add", ok, "add(ended, next) must insert exactly (ended -> next)", b["span"],
           what="chain-glue-wrong")
    b, p, ps = one(F, crate="bevy_mina", name="build", impl_self_adt=CB)
    ok = p is not None and p.ret[0] == "agg" and p.ret[2] == CHAIN and len(cbm) == 1 and \
        dict(p.ret[4]).get(cm[0] if cm else "") == ("field", ("param", 1), cbm[0])
    ctx.ob(rule, "AnimationChainBuilder::build", ok, "build() must hand the map on unchanged", b["span"], what="chain-glue-wrong")


def check(ctx):
    F = ctx.facts
    rule_glue(ctx, F, "R7")
    c18.rule_constructors(ctx, F, "R7")
    rule_select(ctx, F, "R1")
    rule_chain(ctx, F, "R2", "R3")
    rule_registration(ctx, F, "R4")
    # "blended from the current values, so the component does not jump": the blended start value is what evaluation
    # yields before and at the start of the new timeline (prepare_frame phase table, override scope: C10/R1-R2)
    from rules import c10
    c10.rules_override_scope(ctx, prefix="R5")
    # the chain reacts to Ended events: animate sends exactly one event per state change, none while the state rests (C18)
    c18.rules(ctx, c18.build(ctx, F), tag="/animate")
    # the blend requested by select_animation reaches every component of a merged timeline and every animated property of
    # a generated one (C12/R2, C17/G6)
    from rules import c12, derive_rules
    c12.check_loop_method(ctx, F, "R5", "start_with", mutable=True)
    derive_rules.rule_blend_wiring(ctx, "R5")
    ctx.notes.append("not decided: change-detection and cross-frame ordering semantics of bevy's scheduler")
    ctx.assumptions += ["bevy Query::get_mut(entity) yields the entity's own components", "dyn_clone::clone_box is a faithful clone"]
