def rule_zero_length(ctx, F, rule):
    pass
def check(ctx):
    pass
