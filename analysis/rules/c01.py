"""C01 - per-property keyframe interpolation (DESIGN.md section 5, C01)."""
from facts import AnchorLost
from rulelib import trace_of, calls, call_is, mentions
import pse
import terms
import intervals
from pse import show, subterms

ST = "mina_core::timeline_helpers::SubTimeline"
SK = "mina_core::timeline_helpers::SplitKeyframe"
EF = "mina_core::easing::EasingFunction"
LERP = "mina_core::interpolation::Lerp"
SELF = ("deref", ("param", 1))


def st_fields(F, ST=ST, SK=SK):
    a = F.adt(ST)
    fs = a["variants"][0]["fields"]
    skn = SK.split("::")[-1]
    frames = [f["name"] for f in fs if f["ty"].startswith("alloc::vec::Vec<") and skn in f["ty"]]
    imap = [f["name"] for f in fs if f["ty"] == "alloc::vec::Vec<usize>"]
    ov = [f["name"] for f in fs if f["ty"].startswith("core::option::Option<") and skn in f["ty"]]
    if len(frames) != 1 or len(imap) != 1 or len(ov) != 1:
        raise AnchorLost("SubTimeline fields (frames / index map / override)")
    k = F.adt(SK)
    kf = {f["ty"]: f["name"] for f in k["variants"][0]["fields"]}
    if "f32" not in kf or "mina_core::easing::Easing" not in kf or "Value" not in kf:
        raise AnchorLost("SplitKeyframe fields (time / easing / value)")
    return {"frames": frames[0], "imap": imap[0], "ov": ov[0], "time": kf["f32"], "easing": kf["mina_core::easing::Easing"],
            "value": kf["Value"]}


# ---------------------------------------------------------------------------------------------------
# R1 - splitting
def rule_split(ctx, F, rule="R1", ST=ST, SK=SK, KF="mina_core::timeline::Keyframe", floors=True):
    fl = st_fields(F, ST, SK)
    body = F.one(name="from_keyframes", impl_self_adt=ST)
    eng = pse.Engine(F)
    paths = eng.run(body)
    ctx.count_paths(paths, body)
    # loop-carried locals by type
    lt = {}
    for i, l in enumerate(body["locals"]):
        lt[i] = l["ty"]
    frames_l = [i for i, t in lt.items() if t.startswith("alloc::vec::Vec<") and "SplitKeyframe" in t]
    imap_l = [i for i, t in lt.items() if t == "alloc::vec::Vec<usize>"]

    # loop-carried state, by type: a havocked local of that type, or a field of that type of a havocked local struct
    # (the accumulators may be separate locals or gathered in one private struct)
    def field_ty(local_ty, name):
        a = F.adts.get(local_ty.split("<")[0])
        if not a or a["kind"] != "struct":
            return None
        for f in a["variants"][0]["fields"]:
            if f["name"] == name:
                return f["ty"]
        return None

    def carried_ty(x):
        """type of the loop-carried component x denotes, or None"""
        if x[0] == "loop" and x[2][0] == "local":
            return x[2][2]
        if x[0] == "field" and x[1][0] == "loop" and x[1][2][0] == "local":
            return field_ty(x[1][2][2], x[2])
        return None

    def lv(p, pred):
        """loop-carried components (havocked at the header) whose type satisfies pred"""
        out = set()
        for x in subterms(tuple(e.get("descs", ()) for e in p.events if e["kind"] == "call") + (p.ret or (),)
                          + tuple(c[0] for c in p.conds)):
            t = carried_ty(x)
            if t is not None and pred(t):
                out.add(x)
        return out

    def final_of(p, x):
        """value of the carried component x at the end of path p (None: untouched)"""
        if x[0] == "loop":
            return p.store.get(("L", 0, x[2][1]))
        whole = p.store.get(("L", 0, x[1][2][1]))
        if whole is None or whole == x[1]:
            return None
        return eng.read_loc(p, ("L", 0, x[1][2][1]), (("field", x[2]),))

    INTS = ("usize", "u8", "u16", "u32", "u64", "u128", "isize", "i8", "i16", "i32", "i64", "i128")

    def has_data_decision(t, v):
        """(indicator, 1 if the row established 'the property has data' else 0) when the condition (t, v) is a test of a
        loop-carried 'has data' indicator: a bool flag, or a counter compared with 0; None otherwise"""
        if carried_ty(t) == "bool" and v in (0, 1):
            return (t, v)
        if t[0] == "bin" and t[1] in ("Eq", "Ne") and carried_ty(t[2]) in INTS and t[3][0] == "const" and t[3][2] == 0 \
                and v in (0, 1):
            is_zero = (v == 1) == (t[1] == "Eq")
            return (t[2], 0 if is_zero else 1)
        if t[0] == "bin" and t[1] == "Lt" and t[2][0] == "const" and t[2][2] == 0 and carried_ty(t[3]) in INTS and v in (0, 1):
            return (t[3], v)        # 0 < counter
        return None

    # the loop-carried 'has data' indicator: the component the epilogue branches on
    has_data = set()
    for p in paths:
        for (t, v, s) in p.conds:
            d = has_data_decision(t, v)
            if d is not None:
                has_data.add(d[0])

    def initial_of(x):
        """value of the carried component before the loop"""
        if x[0] == "loop":
            return x[3]
        base = x[1][3]
        if base[0] == "agg":
            return dict(base[4]).get(x[2])
        return None

    for hd in sorted(has_data, key=repr):
        init = initial_of(hd)
        ok0 = init in (pse.mk_bool(False),) or (init is not None and init[0] == "const" and init[2] == 0
                                                and not isinstance(init[2], bool))
        ctx.ob(rule, "has-data-indicator/initially-unset", ok0,
               "before the first keyframe the sub-timeline has no data: the indicator must start as false / 0; it starts as %s"
               % (show(init) if init else "?"), body["span"], what="has-data-preset")

    def emptiness(p):
        """1: this row established that no frame exists yet, 0: that one exists, None: never asked"""
        for (t, v, s) in p.conds:
            if t[0] == "bin" and t[1] == "Eq" and t[2][0] == "len" and t[3] == ("const", "usize", 0) and v in (0, 1):
                return v
            # first() / last() of the frames collected so far: None <=> empty
            d, dv = None, None
            if t[0] == "discr" and v in (0, 1):
                d, dv = t, v
            elif t[0] == "bin" and t[1] in ("Eq", "Ne") and t[2][0] == "discr" and t[3][0] == "const" and v in (0, 1) \
                    and t[3][2] in (0, 1):
                d = t[2]
                dv = t[3][2] if (v == 1) == (t[1] == "Eq") else 1 - t[3][2]
            if d is not None and d[1][0] == "call" and d[1][1].rsplit("::", 1)[-1] in ("first", "last"):
                return 1 - dv
        return None
    kf_time = {f["ty"]: f["name"] for f in F.adt(KF)["variants"][0]["fields"]}
    n_body = n_epi = 0
    for p in paths:
        if p.outcome == "panic" and any(e.get("assert_predicate") for e in p.events):
            continue        # the failing side of an assertion (`debug_assert!(result.is_consistent())`): C20 audits it
        pushes = calls(p, lambda e: e["fn"]["name"] == "push" and "Vec" in e["callee"])
        nexts = calls(p, lambda e: e["fn"]["name"] == "next")
        took = None
        for (t, v, s) in p.conds:
            if t[0] == "discr" and nexts and t[1] == nexts[0]["result"]:
                took = v
        frame_pushes = [e for e in pushes if e["descs"][1][0] == "agg" and e["descs"][1][2] == SK]
        idx_pushes = [e for e in pushes if e not in frame_pushes]
        if took == 1:
            n_body += 1
            lab = "iter[%s]" % ",".join(str(v) for (_, v, _) in p.conds[1:])
            kf = ("deref", ("field", ("variant", nexts[0]["result"], "Some"), "0"))
            getter = calls(p, lambda e: e["fn"]["name"] == "call" and e["fn"].get("trait", "").startswith("core::ops::function::Fn"))
            gres = getter[0]["result"] if getter else None
            gdec = None
            for (t, v, s) in p.conds:
                if gres is not None and t[0] == "discr" and t[1] == gres:
                    gdec = v
            kfptr = ("field", ("variant", nexts[0]["result"], "Some"), "0")
            ok_getter = len(getter) == 1 and getter[0]["descs"][1][0] == "agg" and len(getter[0]["descs"][1][4]) == 1 and \
                getter[0]["descs"][1][4][0][1] == ("ref", ("M", kfptr), (("field", kf_time.get("Data", "data")),), False)
            ctx.ob(rule, lab + "/getter-on-this-keyframe", ok_getter,
                   "each iteration asks the property getter about this keyframe's data exactly once", body["span"],
                   trace_of(p), what="getter-misuse")
            easing_loop = [x for x in lv(p, lambda t: t == "mina_core::easing::Easing")]
            cur_easing_in = easing_loop[0] if len(easing_loop) == 1 else None
            data_frames = []
            synth = []
            for e in frame_pushes:
                f = dict(e["descs"][1][4])
                if f[fl["time"]] == ("const", "f32", ("f", 0, 0.0)) and f[fl["value"]] == ("param", 2):
                    synth.append((e, f))
                else:
                    data_frames.append((e, f))
            # every iteration must branch directly on the getter's own result: otherwise the rule cannot tell for which
            # keyframes a frame is produced (fail closed - e.g. a value substituted through or_else/unwrap_or)
            ctx.ob(rule, lab + "/branches-on-getter-result", gdec in (0, 1),
                   "whether a frame is produced must be decided by the getter's result for this keyframe and nothing else "
                   "(the row does not branch on it)", body["span"], trace_of(p), what="frame-not-decided-by-getter")
            # the 'has data' flag may be raised only on the Some arm
            for hd in has_data:
                v = final_of(p, hd)
                raised = v is not None and v != hd
                set_ok = v == pse.mk_bool(True) or (v is not None and v[0] == "bin" and v[1] == "Add" and v[2] == hd and
                                                    v[3][0] == "const" and isinstance(v[3][2], int) and v[3][2] >= 1)
                ctx.ob(rule, lab + "/has-data-only-with-data", (not raised) or (gdec == 1 and set_ok),
                       "the sub-timeline may be marked as having data only by a keyframe that defines the property "
                       "(flag becomes %s on a row with getter outcome %s)" % (show(v) if v else "-", gdec),
                       body["span"], trace_of(p), what="has-data-without-data")
            # (a) data frame only on the Some arm, with (keyframe position, payload, current easing)
            if gdec == 1:
                ok = len(data_frames) == 1
                if ok:
                    e, f = data_frames[0]
                    ke = ("field", kf, [n for t, n in kf_time.items() if t.startswith("core::option::Option<")][0])
                    kdec = None
                    for (t, v, s) in p.conds:
                        if t[0] == "discr" and (t[1] == ke or t[1] == ("optref-of",) or pse.contains(t[1], ke)):
                            kdec = v
                    want_easing = ("field", ("variant", ke, "Some"), "0") if kdec == 1 else cur_easing_in
                    ok = f[fl["time"]] == ("field", kf, kf_time["f32"]) and \
                        f[fl["value"]] == ("field", ("variant", gres, "Some"), "0") and \
                        (f[fl["easing"]] == want_easing or (kdec == 1 and pse.contains(f[fl["easing"]], ke)))
                    ctx.ob(rule, lab + "/data-frame", ok,
                           "a keyframe that defines the property yields one frame (its position, its value, the easing in "
                           "force: its own easing if it has one, else the carried one); pushed %s" % show(e["descs"][1]),
                           body["span"], trace_of(p), what="data-frame-wrong")
                    # (b) the carried easing after the iteration
                    fin = final_of(p, cur_easing_in) if cur_easing_in is not None else None
                    if fin is not None:
                        okc = (fin == cur_easing_in) if kdec == 0 else pse.contains(fin, ke)
                        ctx.ob(rule, lab + "/easing-carry", okc,
                               "the carried easing changes only to the easing of a keyframe that defines the property "
                               "and has one; after the iteration it is %s" % show(fin), body["span"], trace_of(p),
                               what="easing-carry-wrong")
                else:
                    ctx.ob(rule, lab + "/data-frame", False, "Some arm must push exactly one data frame (%d)" % len(data_frames),
                           body["span"], trace_of(p), what="data-frame-missing")
            elif gdec == 0:
                ctx.ob(rule, lab + "/no-frame-without-data", not data_frames,
                       "a keyframe that omits the property takes no part: no frame may be pushed", body["span"],
                       trace_of(p), what="frame-without-data")
                # easing of keyframes that omit the property takes no part
                if cur_easing_in is not None:
                    v = final_of(p, cur_easing_in)
                    if v is not None:
                        ctx.ob(rule, lab + "/easing-untouched", v == cur_easing_in,
                               "the easing of a keyframe that omits the property must not be carried over; carried "
                               "easing becomes %s" % show(v), body["span"], trace_of(p), what="easing-leaks")
            # (c) synthetic 0 % frame only under frames empty and position > 0
            empty = emptiness(p)
            pos_gt0 = None
            for (t, v, s) in p.conds:
                if t[0] == "bin" and t[1] == "Lt" and intervals.fval(t[2]) == 0.0 and t[3] == ("field", kf, kf_time["f32"]):
                    pos_gt0 = v
            # fail closed: there must always be a frame at 0 %, so every iteration has to find out whether a frame exists
            # already and, if none does, whether this keyframe lies after 0 %
            ctx.ob(rule, lab + "/start-frame-decided", empty in (0, 1) and (empty == 0 or pos_gt0 in (0, 1)),
                   "every iteration must decide whether a frame exists yet and, if not, whether this keyframe is after 0%% "
                   "(otherwise the synthetic 0%% frame can be missing): empty=%s pos>0=%s" % (empty, pos_gt0), body["span"],
                   trace_of(p), what="start-frame-not-decided")
            if synth:
                e, f = synth[0]
                ok = len(synth) == 1 and empty == 1 and pos_gt0 == 1 and f[fl["easing"]] == cur_easing_in
                ctx.ob(rule, lab + "/synthetic-start", ok,
                       "the synthetic 0%% frame (0.0, default value, easing in force) is added only when no frame exists "
                       "yet and this keyframe is after 0%%; row empty=%s pos>0=%s frame=%s" % (empty, pos_gt0, show(e["descs"][1])),
                       body["span"], trace_of(p), what="synthetic-start-wrong")
            elif empty == 1 and pos_gt0 == 1:
                ctx.ob(rule, lab + "/synthetic-start", False, "missing synthetic 0% frame", body["span"], trace_of(p),
                       what="synthetic-start-missing")
            # (d) exactly one push to the index map, = index of the last frame
            ok = len(idx_pushes) == 1 and p.outcome == "backedge"
            if ok:
                v = idx_pushes[0]["descs"][1]
                ok = v[0] == "bin" and v[1] == "Sub" and v[2][0] == "max" and v[2][1][0] == "len" and \
                    v[3] == ("const", "usize", 1)
            ctx.ob(rule, lab + "/index-map", ok,
                   "every keyframe contributes exactly one entry (index of the latest frame) to the master->property "
                   "index map - the lookup depends on the map staying parallel to the keyframes; pushes: %s"
                   % [show(e["descs"][1]) for e in idx_pushes], body["span"], trace_of(p), what="index-map-not-parallel")
        elif took == 0:
            n_epi += 1
            lab = "epilogue[%s]" % ",".join(str(v) for (_, v, _) in p.conds[1:])
            r = p.ret
            f = dict(r[4]) if r[0] == "agg" else {}
            hasdata = [d[1] for d in (has_data_decision(t, v) for (t, v, s) in p.conds) if d is not None]
            # fail closed: whether the property has any data at all must be decided before anything is returned
            ctx.ob(rule, lab + "/has-data-decided", hasdata in ([0], [1]),
                   "the epilogue must decide whether any keyframe defined the property (an un-animated property gets an "
                   "empty sub-timeline, so that it is never written): decisions %s" % hasdata, body["span"], trace_of(p),
                   what="has-data-not-decided")
            if hasdata == [0]:
                ok = _is_empty_vec(f.get(fl["frames"])) and _is_empty_vec(f.get(fl["imap"])) and \
                    f.get(fl["ov"], ("x",))[0] == "agg" and f[fl["ov"]][3] == "None"
                ctx.ob(rule, lab + "/no-data-empty", ok,
                       "without any data for the property the sub-timeline must be empty; got %s" % show(r), body["span"],
                       trace_of(p), what="no-data-not-empty")
            else:
                last = calls(p, lambda e: e["fn"]["name"] == "last")
                lt1 = [v for (t, v, s) in p.conds if t[0] == "bin" and t[1] == "Lt" and intervals.fval(t[3]) == 1.0]
                if last and lt1 == [1]:
                    fr = ("deref", ("field", ("variant", last[0]["result"], "Some"), "0"))
                    ok = len(frame_pushes) == 1
                    if ok:
                        g = dict(frame_pushes[0]["descs"][1][4])
                        ok = intervals.fval(g[fl["time"]]) == 1.0 and g[fl["value"]] == ("field", fr, fl["value"]) and \
                            g[fl["easing"]] == ("field", fr, fl["easing"])
                    ctx.ob(rule, lab + "/trailing-frame", ok,
                           "when the last frame is before 100%% one more frame at 1.0 with the same value and easing is "
                           "appended (the value is held); pushed %s" % [show(e["descs"][1]) for e in frame_pushes],
                           body["span"], trace_of(p), what="trailing-frame-wrong")
                else:
                    # every sub-timeline with data must end with a frame at 100 %: the row must have *decided* that the
                    # last frame is not before 1.0 (fail closed when the test is missing altogether)
                    last_none = bool(last) and any(t[0] == "discr" and t[1] == last[0]["result"] and v == 0
                                                    for (t, v, s) in p.conds)
                    ctx.ob(rule, lab + "/trailing-decided", bool(last) and (lt1 == [0] or last_none),
                           "the epilogue must test whether the last frame lies before 100%% (and append a held frame at "
                           "1.0 if so): this row ends without such a test (last() calls %d, decisions %s)"
                           % (len(last), lt1), body["span"], trace_of(p), what="trailing-frame-not-decided")
                    ctx.ob(rule, lab + "/no-extra-frame", not frame_pushes,
                           "no frame is appended when the last frame is already at 100%", body["span"], trace_of(p),
                           what="extra-trailing-frame")
                ok = f.get(fl["ov"], ("x",))[0] == "agg" and f[fl["ov"]][3] == "None"
                ctx.ob(rule, lab + "/fresh-override", ok, "a new sub-timeline has no start override", body["span"],
                       what="override-preset")
    if floors:
        ctx.floor(rule, "loop-body rows of from_keyframes", n_body, 2)
        ctx.floor(rule, "epilogue rows of from_keyframes", n_epi, 2)


def _is_empty_vec(t):
    return t is not None and t[0] == "call" and t[1].startswith("alloc::vec::Vec::<T>::new")


# ---------------------------------------------------------------------------------------------------
# R2 / R3 - lookup and eased lerp
def value_at_rows(ctx, F, ST=ST):
    body = F.one(name="value_at", impl_self_adt=ST)
    eng = pse.Engine(F, inline=lambda fn, b: b["name"] not in ("calc", "lerp"))
    paths = eng.run(body)
    ctx.count_paths(paths, body)
    return body, paths


def rule_lookup(ctx, F, rule2="R2", rule3="R3", ST=ST, SK=SK, floors=True):
    fl = st_fields(F, ST, SK)
    body, paths = value_at_rows(ctx, F, ST)
    frames = ("field", SELF, fl["frames"])
    T = None
    n_lerp = n_zero = n_mapped = 0
    for p in paths:
        if p.outcome != "return":
            continue
        lab = "row[%s]" % ",".join(str(v) for (_, v, _) in p.conds)
        r = p.ret
        # index term I = frame_index_map[hint]
        gm = [x for x in subterms((r,) + tuple(c[0] for c in p.conds)) if x[0] == "call" and x[1].endswith("::get")
              and x[2][0] == ("&", ("field", SELF, fl["imap"]))]
        if not gm:
            # a row that produces a value without translating the caller's master index through the per-property
            # index map treats the master index as a frame index: wrong as soon as one keyframe omits the property
            # or an implicit 0% frame was inserted (seed S9-C01: an `is_dense` shortcut).  None rows before the map
            # is consulted (the emptiness test) are fine.
            if r[0] == "agg" and r[3] == "Some":
                ctx.ob(rule2, lab + "/index-map-consulted", False,
                       "a value is produced without translating the caller's master keyframe index through the "
                       "per-property index map (the master index is not a frame index when a keyframe omits the "
                       "property or an implicit 0% frame exists)", body["span"], trace_of(p), what="index-map-bypassed")
            continue
        n_mapped += 1
        I =("deref", ("field", ("variant", gm[0], "Some"), "0"))
        ctx.ob(rule2, lab + "/hint-index", gm[0][2][1] == ("param", 3),
               "the index map is consulted with the caller's master index", body["span"], what="hint-not-used")
        flag = idec = present = None
        for (t, v, s) in p.conds:
            if t == ("param", 4):
                flag = v
            if t[0] == "discr" and (pse.contains(t, ("field", fl["ov"])) or pse.contains(t, ("field", SELF, fl["ov"]))):
                present = v
        one = ("const", "usize", 1)
        Km1 = ("bin", "Sub", I, one, "usize")
        Kp1 = ("bin", "Add", I, one, "usize")

        def eq0(K):
            """1 / 0 / None: the path established K == 0 / K != 0 / neither (an `== 0` test or a `match K { 0 => .. }`)"""
            for (t, v, s) in p.conds:
                if t[0] == "bin" and t[1] == "Eq" and t[2] == K and t[3] == ("const", "usize", 0):
                    return v
                if t == K:
                    if v == 0:
                        return 1
                    if isinstance(v, tuple) and v[0] == "not" and 0 in v[1]:
                        return 0
                    if isinstance(v, int) and v != 0:
                        return 0
            return None

        def plain(K):
            return ("deref", ("field", ("variant", ("call", "core::slice::<impl [T]>::get", (("&", frames), K)), "Some"), "0"))

        def is_override(fr):
            return pse.contains(fr, ("field", fl["ov"])) or pse.contains(fr, ("field", SELF, fl["ov"]))

        def expected(K):
            ov_ok = (flag == 1 and eq0(K) == 1 and present == 1)
            if ov_ok:
                return "override"
            if flag == 1 and eq0(K) == 1 and present is None:
                # the caller enabled the start override and frame 0 is wanted, but this path never looked whether an
                # override is present: the flag was narrowed or dropped on the way (seed S9-C10)
                return "must-consult-override"
            alts = [plain(K)]
            if eq0(K) == 1:
                alts.append(plain(("const", "usize", 0)))
                # frames.first() is frames.get(0)
                alts.append(("deref", ("field", ("variant", ("call", "core::slice::<impl [T]>::first", (("&", frames),)), "Some"), "0")))
            return alts

        def matches(fr, exp):
            if exp == "must-consult-override":
                return False
            if exp == "override":
                return is_override(fr)
            return fr in exp

        # the time used: clamp(arg2, 0, 1)
        uses = [x for x in subterms((r,) + tuple(c[0] for c in p.conds)) if x == ("param", 2)]
        clamps = [x for x in subterms((r,) + tuple(c[0] for c in p.conds)) if x[0] == "call" and x[1].endswith("::clamp")
                  and x[2][0] == ("param", 2)]
        okc = all(intervals.fval(c[2][1]) == 0.0 and intervals.fval(c[2][2]) == 1.0 for c in clamps) and len(uses) == len(clamps)
        ctx.ob(rule2, lab + "/clamped", okc, "the position is clamped to [0,1] before every use", body["span"],
               trace_of(p), what="position-not-clamped")
        T = clamps[0] if clamps else ("param", 2)
        # the position may steer the lookup only through comparisons with frame positions: a decision that compares it
        # with anything else (a cached threshold, a constant) makes the frame pair depend on more than the frame table
        for (t, v, s) in p.conds:
            if not (pse.contains(t, T) or pse.contains(t, ("param", 2))):
                continue
            okt = t[0] == "bin" and t[1] in ("Lt", "Le", "Gt", "Ge") and \
                ((t[2] == T and t[3][0] == "field" and t[3][2] == fl["time"] and t[3][1] != SELF) or
                 (t[3] == T and t[2][0] == "field" and t[2][2] == fl["time"] and t[2][1] != SELF))
            ctx.ob(rule2, lab + "/position-decisions", okt,
                   "the position may only be compared with frame positions; this row decides on %s" % show(t),
                   body["span"], trace_of(p), what="position-compared-with-non-frame")
        lt = None
        at_frame = None
        for (t, v, s) in p.conds:
            if t[0] == "bin" and t[1] == "Lt" and t[2] == T and t[3][0] == "field" and t[3][2] == fl["time"]:
                lt = v
                at_frame = t[3][1]
        if at_frame is not None:
            ctx.ob(rule2, lab + "/anchor-frame", matches(at_frame, expected(I)),
                   "the position is compared with the frame the index map points at (frame 0 replaced by the override "
                   "only when enabled and present); compared with %s" % show(at_frame), body["span"], trace_of(p),
                   what="anchor-frame-wrong")
        if r[0] != "agg" or r[3] != "Some":
            # None rows: nothing before the first frame, or index out of range
            i_gt0 = [v for (t, v, s) in p.conds if t[0] == "bin" and t[1] == "Lt" and t[2] == ("const", "usize", 0) and t[3] == I]
            empty = [v for (t, v, s) in p.conds if t[0] == "bin" and t[1] == "Eq" and t[2][0] == "len" and v == 1]
            i_lt1 = [v for (t, v, s) in p.conds if t[0] == "bin" and t[1] == "Lt" and t[2] == I and t[3] == ("const", "usize", 1)]
            last_dec = [v for (t, v, s) in p.conds if t[0] == "bin" and t[1] == "Eq" and t[2] == I and t[3][0] == "bin"
                        and t[3][1] == "Sub" and t[3][2][0] == "len"]

            def missing(K):
                return any(t[0] == "discr" and t[1] == ("call", "core::slice::<impl [T]>::get", (("&", frames), K)) and v == 0
                           for (t, v, s) in p.conds)
            # legitimate reasons for "no value": the hint is out of range, there is no frame at the hinted index, the position
            # lies before frame 0, or a neighbour is missing on a path that cannot happen (idx-1 with idx > 0 checked;
            # idx+1 after `idx != last` was established).  A missing idx+1 alone is *not* one: that is the last frame, whose
            # value must be held
            first_missing = any(t[0] == "discr" and t[1] == ("call", "core::slice::<impl [T]>::first", (("&", frames),)) and v == 0
                                for (t, v, s) in p.conds)
            ok = any(t[0] == "discr" and t[1] == gm[0] and v == 0 for (t, v, s) in p.conds) or bool(empty) or \
                missing(I) or missing(("const", "usize", 0)) or first_missing or \
                (lt == 1 and (i_gt0 == [0] or i_lt1 == [1] or eq0(I) == 1 or missing(Km1))) or \
                (lt != 1 and missing(Kp1) and last_dec == [0])
            ctx.ob(rule2, lab + "/none-row", ok, "None is returned only when there is no bracketing frame", body["span"],
                   trace_of(p), what="spurious-none")
            continue
        val = r[4][0][1]
        # decode (START, END)
        if call_is(val, LERP, "lerp") or (val[0] == "call" and val[1].endswith("::lerp")):
            n_lerp += 1
            sv, ev, y = val[2]
            okshape = sv[0] == "&" and ev[0] == "&" and sv[1][0] == "field" and sv[1][2] == fl["value"] and \
                ev[1][0] == "field" and ev[1][2] == fl["value"]
            if not okshape:
                ctx.ob(rule3, lab + "/lerp-shape", False, "lerp operands are not frame values: %s" % show(val), body["span"],
                       trace_of(p), what="lerp-shape")
                continue
            START, END = sv[1][1], ev[1][1]
            # R3: easing from the start frame, eased fraction measured from the start frame
            okE = (call_is(y, EF, "calc") or (y[0] == "call" and y[1].endswith("::calc"))) and \
                y[2][0] == ("&", ("field", START, fl["easing"]))
            ctx.ob(rule3, lab + "/easing-of-start-frame", okE,
                   "the eased fraction uses the easing of the segment's *start* frame (CSS semantics); uses %s"
                   % show(y[2][0] if y[0] == "call" else y), body["span"], trace_of(p), what="easing-from-wrong-frame")
            if okE:
                x = y[2][1]
                okx = False
                if x[0] == "bin" and x[1] == "Div":
                    try:
                        num, den = terms.poly(x[2]), terms.poly(x[3])
                        st_, et_ = terms.p_atom(("field", START, fl["time"])), terms.p_atom(("field", END, fl["time"]))
                        okx = num == terms.p_add(terms.p_atom(T), st_, -1) and den == terms.p_add(et_, st_, -1)
                    except terms.NotPoly:
                        okx = False
                ctx.ob(rule3, lab + "/fraction", okx,
                       "the fraction must satisfy x * (end.pos - start.pos) = t - start.pos; it is %s" % show(x),
                       body["span"], trace_of(p), what="fraction-wrong")
                # zero-length guard dominates the division
                den_t = x[3] if x[0] == "bin" else None
                guard = [v for (t, v, s) in p.conds if t[0] == "bin" and t[1] == "Eq" and t[2] == den_t
                         and intervals.fval(t[3]) == 0.0]
                ctx.ob(rule3, lab + "/zero-length-guard", guard == [0],
                       "the division by the segment length is reached only after a `== 0` test on the same term failed",
                       body["span"], trace_of(p), what="unguarded-division")
        else:
            # zero-length segment (or a frame value returned directly): must be the start frame's value
            if val[0] == "field" and val[2] == fl["value"]:
                n_zero += 1
                START = END = None
                zl = [(t, v) for (t, v, s) in p.conds if t[0] == "bin" and t[1] == "Eq" and t[2][0] == "bin" and t[2][1] == "Sub"
                      and intervals.fval(t[3]) == 0.0 and v == 1]
                okz = bool(zl)
                if okz:
                    d = zl[-1][0][2]
                    START = d[3][1] if d[3][0] == "field" else None
                    END = d[2][1] if d[2][0] == "field" else None
                    okz = START is not None and val[1] == START
                ctx.ob(rule3, lab + "/zero-length-returns-start", okz,
                       "a zero-length segment returns the start frame's value without interpolating; returns %s"
                       % show(val), body["span"], trace_of(p), what="zero-length-value")
                if START is None:
                    continue
            else:
                ctx.ob(rule3, lab + "/value-shape", False, "unexpected value: %s" % show(val), body["span"], trace_of(p),
                       what="value-shape")
                continue
        # R2: the pair of frames
        last = [v for (t, v, s) in p.conds if t[0] == "bin" and t[1] == "Eq" and t[2] == I and t[3][0] == "bin"
                and t[3][1] == "Sub" and t[3][2][0] == "len"]
        # "idx is the last frame" may also be established by finding no frame at idx+1
        no_next = [v for (t, v, s) in p.conds if t[0] == "discr" and t[1] == ("call", "core::slice::<impl [T]>::get", (("&", frames), Kp1))]
        if lt == 1:
            okp = matches(START, expected(Km1)) and matches(END, expected(I))
            want = "(frame idx-1, frame idx)"
        elif last == [1] or (not last and no_next == [0]):
            okp = matches(START, expected(I)) and matches(END, expected(I))
            want = "(frame idx, frame idx)"
        else:
            okp = matches(START, expected(I)) and END == plain(Kp1)
            want = "(frame idx, frame idx+1)"
        ctx.ob(rule2, lab + "/bounding-pair", okp,
               "bounding frames must be %s with frame 0 replaced by the override only when enabled and present; got "
               "start=%s end=%s" % (want, show(START), show(END)), body["span"], trace_of(p), what="bounding-pair-wrong")
    if floors:
        ctx.floor(rule3, "eased-lerp rows of value_at", n_lerp, 2)
        ctx.floor(rule3, "zero-length rows of value_at", n_zero, 1)
        ctx.floor(rule2, "rows of value_at that translate the master index through the index map", n_mapped, 3)


def rule_zero_length(ctx, F, rule="R1"):
    """C02's third exactness mechanism: zero-length segment returns the start value without dividing"""
    fl = st_fields(F)
    body, paths = value_at_rows(ctx, F)
    n = 0
    for p in paths:
        if p.outcome != "return" or p.ret[0] != "agg" or p.ret[3] != "Some":
            continue
        val = p.ret[4][0][1]
        zl = [(t, v) for (t, v, s) in p.conds if t[0] == "bin" and t[1] == "Eq" and t[2][0] == "bin" and t[2][1] == "Sub"
              and intervals.fval(t[3]) == 0.0]
        if zl and zl[-1][1] == 1:
            n += 1
            d = zl[-1][0][2]
            ok = val[0] == "field" and d[3][0] == "field" and val[1] == d[3][1]
            ctx.ob(rule, "zero-length/row[%s]" % ",".join(str(v) for (_, v, _) in p.conds), ok,
                   "a zero-length segment must yield the start frame's value exactly; yields %s" % show(val), body["span"],
                   trace_of(p), what="zero-length-value")
    ctx.floor(rule, "zero-length rows", n, 1)


# ---------------------------------------------------------------------------------------------------
# R4 - master search
def rule_search(ctx, F, rule="R4"):
    from rules import c10
    body, rows = c10.prepare_frame_table(ctx, F)
    n = 0
    for r in rows:
        p = r["path"]
        if p.ret[0] != "agg" or p.ret[3] != "Some":
            continue
        n += 1
        tup = dict(p.ret[4][0][1][4])
        pos, idx = tup["0"], tup["1"]
        bs = calls(p, lambda e: e["fn"]["name"] in ("binary_search_by", "binary_search_by_key", "partition_point"))
        lab = "row[%s]" % ",".join(str(v) for (_, v, _) in p.conds)
        if len(bs) != 1:
            ctx.ob(rule, lab + "/search", False, "exactly one search of the boundary table per evaluation", body["span"],
                   trace_of(p), what="search-missing")
            continue
        b = bs[0]
        ctx.ob(rule, lab + "/table", b["descs"][0] == ("&", ("deref", ("param", 2))),
               "the table searched must be the timeline's own boundary_times; searches %s" % show(b["descs"][0]),
               body["span"], trace_of(p), what="wrong-table")
        res = b["result"]
        ok_i = idx == ("field", ("variant", res, "Ok"), "0")
        n_ = ("field", ("variant", res, "Err"), "0")
        ok_e = idx == ("bin", "Sub", ("max", n_, ("const", "usize", 1)), ("const", "usize", 1), "usize") or \
            (idx[0] == "call" and idx[1].endswith("saturating_sub") and idx[2] == (n_, ("const", "usize", 1)))
        ctx.ob(rule, lab + "/index", ok_i or ok_e,
               "the master index is i for an exact hit and max(n,1)-1 for insertion point n; it is %s" % show(idx),
               body["span"], trace_of(p), what="master-index-wrong")
        # comparator: element vs. target (the position of this row), ascending
        clo = b["descs"][1]
        cb = eng_body(F, clo)
        okc = False
        got = None
        if cb is not None:
            ps = [q for q in pse.Engine(F, inline=lambda fn, bb: False).run(cb) if q.outcome == "return"]
            if len(ps) == 1:
                rr = ps[0].ret
                got = show(rr)
                okc = rr[0] == "call" and rr[1].endswith("f32>::total_cmp") and rr[2][0] == ("&", ("deref", ("param", 2))) \
                    and pse.contains(rr[2][1], ("param", 1))
            # the captured target is the position handed on
            cap = clo[4][0][1] if clo[0] == "agg" and clo[4] else None
            if okc and cap is not None and cap[0] == "ref":
                tgt = pse.Engine(F).read_loc(p, cap[1], cap[2])
                okc = tgt == pos
        ctx.ob(rule, lab + "/comparator", okc,
               "the search comparator must order element vs. the position handed on, ascending, through a total order "
               "(|t| t.total_cmp(&position)); it is %s" % got, body["span"], trace_of(p), what="search-comparator-wrong")
    ctx.floor(rule, "prepare_frame rows", n, 3)


def eng_body(F, clo):
    if clo and clo[0] == "agg" and clo[1] == "closure":
        return F.bodies.get(clo[2])
    return None


def check(ctx):
    F = ctx.facts
    rule_split(ctx, F, "R1")
    rule_lookup(ctx, F, "R2", "R3")
    rule_search(ctx, F, "R4")
    # R3 also needs the interpolation applied to the eased fraction to be the plain affine lerp, for every fraction the
    # easing may yield (Back curves and custom easings leave [0,1]): one return path, affine in x (C14/R2)
    from rules import c14
    c14.rule_affine(ctx, F, "R3")
    # R4 also needs the table that is searched to be parallel to the keyframes (and sorted): C11/R1
    from rules import c11
    for b in [b for b in c11.builders_of(F, c11.TBA) if F.body_unit[b["id"]][0] == "mina_core"]:
        c11.check_builder(ctx, F, b, "R4")
    try:
        from rules import derive_rules
        derive_rules.rule_wiring(ctx, "R5")
        # the keyframes the splitter sees are the ones the user built: position, per-field values and easing as given
        # (generated keyframe builder + Keyframe::new; C17/G1-G3, G8)
        for s_ in derive_rules.collect(ctx):
            if not s_.sibling:
                derive_rules.rule_keyframe_api(ctx, s_)
    except ImportError:
        ctx.notes.append("R5 (derive wiring) not built yet")
    # "with and without a substituted start value", "all times": which position and which override flag the evaluation is
    # handed before the start, while active and after the end (C10/R1)
    from rules import c10
    c10.rules_prepare_frame(ctx, "R7")
    # "otherwise the timeline's default easing": the easing given to the builder reaches the arguments the generated build
    # hands to every sub-timeline (setter -> configuration -> builder arguments; C03/R5)
    from rules import c03, timescale_table as TT
    c03.rule_metadata(ctx, TT.build(ctx), "R6")
    ctx.notes.append("not decided: that the index arithmetic is right for every keyframe set (an inductive numeric fact "
                     "about sorted positions); the value of any interpolation")
    ctx.assumptions += ["slice::binary_search_by on a sorted table returns Ok(i) for a hit and Err(insertion point) otherwise",
                        "boundary table sorted (C11)"]


CTL_ST = "witness_controls::split::CtlSub"
CTL_SK = "witness_controls::split::CtlSplit"
CTL_KF = "witness_controls::split::CtlKeyframe"


def controls(ctx, F):
    rule_split(ctx, F, "R1", ST=CTL_ST, SK=CTL_SK, KF=CTL_KF, floors=False)
    rule_lookup(ctx, F, "R2", "R3", ST=CTL_ST, SK=CTL_SK, floors=False)
    return [("R1", "easing-leaks", "splitter copy whose carried easing is updated by keyframes that omit the property"),
            ("R1", "index-map-not-parallel", "splitter copy that adds an index-map entry only for keyframes with data"),
            ("R2", "bounding-pair-wrong", "lookup copy that returns (frame idx, frame idx) instead of (idx-1, idx)"),
            ("R2", "index-map-bypassed", "lookup copy that uses the master index as frame index when both tables have equal length"),
            ("R2", "position-compared-with-non-frame", "value_at copy that narrows the override flag by a threshold on the position"),
            ("R3", "easing-from-wrong-frame", "eased lerp copy that takes the easing of the end frame")]
