def rule_duration_formula(ctx, rule):
    pass
def check(ctx):
    pass
