"""C03 - delay / repeat / reverse -> bounded, periodic, mirrored position (DESIGN.md section 5, C03)."""
from rules import timescale_table as TT
from rulelib import trace_of, calls
import pse
import terms
import intervals
from intervals import ival
from pse import show

TL = "mina_core::timeline::Timeline"


def rule_range(ctx, tab, rule="R1"):
    n = 0
    for r in tab["rows"]:
        if r.kind not in ("Active", "Ended"):
            continue
        if r.env.infeasible:
            ctx.extra.setdefault("infeasible_rows", []).append(r.label)
            continue
        n += 1
        iv = ival(r.pos, r.env)
        ok = iv is not None and iv.within(0.0, 1.0)
        ctx.ob(rule, "range/" + r.label, ok,
               "the position handed on must lie in [0,1] (cycle duration D finite > 0, finite time): %s is in %s"
               % (show(r.pos), iv), tab["body"]["span"], trace_of(r.path), what="position-out-of-range")
    ctx.floor(rule, "feasible Active/Ended rows of get_position", n, 6)


def rule_mirror(ctx, tab, rule="R2"):
    rising, falling = {}, {}
    for r in tab["rows"]:
        if r.kind != "Active" or r.reverse != 1 or r.env.infeasible:
            continue
        fold = [(t, v) for (t, v, s) in r.path.conds if t[0] == "bin" and t[1] == "Lt" and intervals.fval(t[2]) is not None
                and isinstance(v, int) and t[3] != tab["S"] and not pse.contains(t[2], tab["S"])]
        if not fold:
            ctx.ob(rule, "mirror/" + r.label, False, "reversing row without a fold test", tab["body"]["span"],
                   trace_of(r.path), what="no-fold-test")
            continue
        t, v = fold[-1]
        thr, ratio = intervals.fval(t[2]), t[3]
        ctx.ob(rule, "threshold/" + r.label, thr == 0.5, "the fold must be at one half of the cycle, is at %s" % thr,
               tab["body"]["span"], what="fold-threshold")
        Rm = ("R",)
        p = terms.poly(terms.subst(r.pos, {ratio: Rm}))
        (falling if v == 1 else rising).setdefault(show(ratio), []).append((p, r))
        # the reversing flag is the fold literal itself
        flag = dict(r.loop[4]).get("is_reversing") if r.loop and r.loop[0] == "agg" else None
        ctx.ob(rule, "reversing-flag/" + r.label, flag == pse.mk_bool(v == 1),
               "is_reversing must be exactly `reverse and ratio > 1/2`", tab["body"]["span"], trace_of(r.path),
               what="reversing-flag")
    n = 0
    for key, fl in falling.items():
        for (pf, rf) in fl:
            for (pr, rr) in rising.get(key, []):
                n += 1
                Rm = ("R",)
                mirrored = terms.p_subst(pr, Rm, terms.p_add(terms.p_const(1), terms.p_atom(Rm), -1))
                ctx.ob(rule, "mirror/%s" % key, mirrored == pf,
                       "falling branch must be the rising branch mirrored, g(r) = f(1-r): rising %s, falling %s"
                       % (terms.p_show(pr), terms.p_show(pf)), tab["body"]["span"], what="not-mirrored")
                ctx.ob(rule, "rise-linear/%s" % key, pr == terms.p_mul(terms.p_const(2), terms.p_atom(Rm)),
                       "rising branch of a reversing cycle must be 2r, is %s" % terms.p_show(pr), tab["body"]["span"],
                       what="rise-not-2r")
    ctx.floor(rule, "rising/falling pairs", n, 1)
    # forward rows: the position is the ratio itself
    for r in tab["rows"]:
        if r.kind == "Active" and r.reverse == 0 and not r.env.infeasible:
            ok = r.pos[0] == "bin" and r.pos[1] == "Div" and r.pos[3] == tab["D"]
            ctx.ob(rule, "forward/" + r.label, ok, "forward position must be cycle_time / duration, is %s" % show(r.pos),
                   tab["body"]["span"], what="forward-not-ratio")
            if ok:
                # the cycle time is the time since the delay (no repeat), its remainder modulo the cycle duration, or the
                # duration itself (hold): that is what makes the position linear within a cycle and periodic with period D
                S_, D_ = tab["S"], tab["D"]
                forms = (S_, ("bin", "Rem", S_, D_, "f32"), D_)
                okc = r.pos[2] in forms and (r.repeat != "None" or r.pos[2] == S_)
                ctx.ob(rule, "cycle-time/" + r.label, okc,
                       "the cycle time must be time-since-delay, its remainder modulo the cycle duration, or the duration "
                       "itself; it is %s" % show(r.pos[2]), tab["body"]["span"], what="cycle-time-form")
            flag = dict(r.loop[4]).get("is_reversing")
            ctx.ob(rule, "forward-flag/" + r.label, flag == pse.mk_bool(False), "non-reversing timeline never reverses",
                   tab["body"]["span"], what="reversing-flag")


def rule_not_started(ctx, tab, rule="R3"):
    S = tab["S"]
    lits = (pse.mk_bin("Lt", S, ("const", "f32", ("f", 0, 0.0))),
            ("bin", "Lt", TT.TIME, TT.fld(tab["roles"]["delay"])))      # time - delay < 0  |  time < delay (equivalent in floats)
    ns = [r for r in tab["rows"] if r.kind == "NotStarted"]
    ok = len(ns) >= 1
    lit = lits[0]
    for r in ns:
        cs = [(t, v) for (t, v, s) in r.path.conds]
        ok = ok and len(cs) == 1 and cs[0][0] in lits and cs[0][1] == 1
        if ok:
            lit = cs[0][0]
    ctx.ob(rule, "not-started-iff-time<delay", ok,
           "NotStarted must be returned exactly under `time - delay < 0` (strict); rows: %s"
           % [[(show(t), v) for (t, v, s) in r.path.conds] for r in ns], tab["body"]["span"], what="not-started-test")
    for r in tab["rows"]:
        if r.kind != "NotStarted":
            first = r.path.conds[0] if r.path.conds else None
            ctx.ob(rule, "started/" + r.label, first is not None and first[0] == lit and first[1] == 0,
                   "every other row is taken only when time - delay >= 0", tab["body"]["span"], what="started-test")


def rule_duration_formula(ctx, rule="R4", tab=None, adt=TT.TS):
    """end test of get_position agrees with get_duration; INFINITY iff Repeat::Infinite"""
    F = ctx.facts
    tab = tab or TT.build(ctx)
    roles = tab["roles"]
    S, D = tab["S"], tab["D"]
    delay = TT.fld(roles["delay"])
    gd = F.one(name="get_duration", impl_self_adt=adt)
    eng = pse.Engine(F)
    ps = TT.resolve(eng.run(gd), tab.get("derived"))
    ctx.count_paths(ps, gd)
    inf_rows = [p for p in ps if intervals.fval(p.ret) == float("inf")]
    fin_rows = [p for p in ps if p not in inf_rows and p.outcome == "return"]
    okinf = len(inf_rows) >= 1
    for p in inf_rows:
        # reached exactly under repeat == Infinite (an equality test or a match arm)
        okinf = okinf and _infinite_decided(p, roles) == 1
    for p in fin_rows:
        okinf = okinf and _infinite_decided(p, roles) == 0
    ctx.ob(rule, "get_duration/infinite-iff-Infinite", okinf,
           "get_duration must be INFINITY exactly when repeat is Infinite", gd["span"], what="infinite-duration-test")
    # threshold per variant vs duration formula with as_ordinal specialised
    ordinal = {"None": ("const", "u32", 0), "Times": ("field", ("variant", TT.fld(roles["repeat"]), "Times"), "0")}
    n = 0
    for r in tab["rows"]:
        if r.kind != "Ended":
            continue
        ends = [(t, v) for (t, v, s) in r.path.conds if t[0] == "bin" and t[1] == "Lt" and t[3] == S]
        ok = len(ends) == 1 and ends[0][1] == 1
        ctx.ob(rule, "ended-strict/" + r.label, ok,
               "the end test must be strict: threshold < time-since-delay (t = end is still the last Active instant)",
               tab["body"]["span"], trace_of(r.path), what="end-test-not-strict")
        if not ok or r.repeat not in ordinal:
            if r.repeat == "Infinite":
                ctx.ob(rule, "never-ended/" + r.label, False, "an infinitely repeating timeline must never end",
                       tab["body"]["span"], trace_of(r.path), what="infinite-ends")
            continue
        n += 1
        thr = terms.poly(ends[0][0][2])
        for p in fin_rows:
            call = [x for x in pse.subterms(p.ret) if x[0] == "call" and x[1].endswith("Repeat::as_ordinal")]
            rp = terms.subst(p.ret, {c: ordinal[r.repeat] for c in call})
            # as_ordinal inlined: the row is already specialised to one variant
            pv = None
            for (t, v, s) in p.conds:
                if t[0] == "discr" and t[1] == TT.fld(roles["repeat"]) and not isinstance(v, tuple):
                    pv = {int(d): nme for nme, d in t[2]}.get(v)
            if pv is not None and pv != r.repeat:
                continue
            try:
                dur = terms.poly(rp)
            except terms.NotPoly:
                ctx.ob(rule, "duration-poly", False, "get_duration is not a polynomial: %s" % show(p.ret), gd["span"],
                       what="duration-not-polynomial")
                continue
            want = terms.p_add(thr, terms.p_atom(delay))
            ctx.ob(rule, "end-agrees-with-duration/%s" % r.label, dur == want,
                   "position becomes terminal when time-since-delay exceeds %s, but the reported total duration is %s "
                   "(must be delay + that)" % (terms.p_show(thr), terms.p_show(dur)), tab["body"]["span"],
                   what="end-threshold-differs-from-duration")
    ctx.floor(rule, "Ended rows with finite repeat", n, 2)
    # "cycle x (repeats + 1)" is formed from the configured count: the count is rounded to f32 once, after the increment
    # (`(n + 1) as f32` in a wider integer type or in f64).  `n as f32 + 1.0` rounds twice and loses the last cycle for
    # counts above 2^24 where n and n + 1 round differently.
    k = 0
    sites = [("get_duration[%d]" % i, p.ret, p.conds) for i, p in enumerate(fin_rows)]
    sites += [("end-test/" + r.label, ends_t, r.path.conds) for r in tab["rows"] if r.kind == "Ended"
              for (ends_t, v, s) in r.path.conds if ends_t[0] == "bin" and ends_t[1] == "Lt" and ends_t[3] == S]
    for (label, t, conds) in sites:
        bad = _count_rounded_early(t, roles)
        if bad is None:
            continue
        k += 1
        ctx.ob(rule, "count-rounded-once/" + label, not bad,
               "the repeat count must be converted to f32 only after the + 1 (one rounding): %s" % [show(b) for b in bad],
               tab["body"]["span"] if label.startswith("end-test") else gd["span"], what="count-rounded-before-increment")
    ctx.floor(rule, "terms converting the repeat count to a float", k, 2)
    # fail closed: every finite repeat variant must be able to end (a variant without an Ended row never terminates)
    ends_of = {r.repeat for r in tab["rows"] if r.kind == "Ended"}
    for var in ("None", "Times"):
        ctx.ob(rule, "ends/" + var, var in ends_of,
               "a timeline with repeat = %s must end once the time since the delay exceeds its cycles: no Ended row for it"
               % var, tab["body"]["span"], what="finite-repeat-never-ends")
    for r in tab["rows"]:
        if r.repeat == "Infinite":
            ctx.ob(rule, "never-ended/" + r.label, r.kind != "Ended", "an infinitely repeating timeline never ends",
                   tab["body"]["span"], what="infinite-ends")


def _is_count(t, roles):
    rep = TT.fld(roles["repeat"])
    if t[0] == "field" and t[1][0] == "variant" and t[1][1] == rep and t[1][2] == "Times":
        return True
    return t[0] == "call" and t[1].endswith("Repeat::as_ordinal")


def _count_rounded_early(t, roles):
    """None: the term does not mention the repeat count.  Otherwise the list of sub-terms in which the count reaches f32
    as anything but `count + 1` computed exactly (integer arithmetic or f64, which holds every u32 exactly)."""
    if not any(_is_count(x, roles) for x in pse.subterms(t)):
        return None
    bad = []

    def exact(x):
        """x is an exact (integer / f64) expression of the count: its polynomial, else None"""
        try:
            return terms.poly(x)
        except terms.NotPoly:
            return None

    def walk(x, in_f32):
        if not isinstance(x, tuple) or not x:
            return
        if _is_count(x, roles):
            if in_f32:
                bad.append(x)
            return
        if x[0] == "cast" and x[1] in ("IntToFloat", "FloatToFloat") and len(x) > 3 and str(x[3]) == "f32" and \
                any(_is_count(y, roles) for y in pse.subterms(x[2])) and not (len(x) > 4 and str(x[4]) == "f32"):
            cnt = [y for y in pse.subterms(x[2]) if _is_count(y, roles)][0]
            p = exact(x[2])
            if p != terms.p_add(terms.p_atom(cnt), terms.p_const(1)):
                bad.append(x)
            return
        if x[0] == "cast" and x[1] == "IntToFloat" and len(x) > 3 and str(x[3]) == "f64":
            walk(x[2], False)
            return
        for y in x[1:]:
            if isinstance(y, tuple):
                walk(y, in_f32)
            elif isinstance(y, list):
                for z in y:
                    walk(z, in_f32)
    walk(t, False)
    return bad


def _infinite_decided(p, roles):
    """1 / 0 / None: the path has established repeat == Infinite / repeat != Infinite / neither"""
    rep = TT.fld(roles["repeat"])
    for (t, v, s) in p.conds:
        if _is_infinite_test(t, roles) and v in (0, 1):
            return v
        if t[0] == "discr" and t[1] == rep:
            names = {int(d): n for n, d in t[2]}
            if not isinstance(v, tuple):
                return 1 if names.get(v) == "Infinite" else 0
            if v[0] == "not" and any(names.get(int(x)) == "Infinite" for x in v[1]):
                return 0
    return None


def _is_infinite_test(t, roles):
    rep = TT.fld(roles["repeat"])
    if t[0] == "bin" and t[1] == "Eq" and rep in (t[2], t[3]):
        other = t[3] if t[2] == rep else t[2]
        return pse.unit_variant(other) is not None and pse.unit_variant(other)[1] == "Infinite"
    return False


def rule_one_clock(ctx, tab, rule="R3"):
    """the delay is subtracted once and for all: after the not-started test every decision and every result depends on the
    time argument only through S = time - delay (a cycle count or phase computed from the raw time is off by delay / D)"""
    S = tab["S"]
    mark = ("S",)
    n = 0
    for r in tab["rows"]:
        if r.kind not in ("Active", "Ended"):
            continue
        n += 1
        leaks = []
        for (t, v, s_) in r.path.conds:
            t2 = terms.subst(t, {S: mark})
            if pse.contains(t2, TT.TIME) and t != pse.mk_bin("Lt", TT.TIME, TT.fld(tab["roles"]["delay"])):
                leaks.append(show(t))
        r2 = terms.subst(r.ret, {S: mark})
        if pse.contains(r2, TT.TIME):
            leaks.append("result " + show(r.ret))
        # cycle number, phase and ratio: every division / remainder by the cycle duration D is taken of the time since the
        # delay, of its remainder, or of D itself (the held end of a pass)
        D = tab["D"]
        allowed = (S, ("bin", "Rem", S, D, "f32"), ("bin", "Rem", S, D), D)
        for x in pse.subterms((r.ret,) + tuple(c[0] for c in r.path.conds)):
            if isinstance(x, tuple) and x and x[0] == "bin" and x[1] in ("Div", "Rem") and len(x) > 3 and x[3] == D \
                    and x[2] not in allowed:
                leaks.append("%s of %s" % (x[1], show(x[2])))
        ctx.ob(rule, "one-clock/" + r.label, not leaks,
               "cycle number, phase and end test must all be computed from time - delay; the raw time is used in %s"
               % leaks[:3], tab["body"]["span"], trace_of(r.path), what="raw-time-used")
    ctx.floor(rule, "Active/Ended rows", n, 3)


def rule_metadata(ctx, tab, rule="R5"):
    """configuration parameters flow into the same-meaning TimeScale fields and out of the getters"""
    F = ctx.facts
    roles = tab["roles"]
    # 1. configuration setters -> configuration fields (written as `self.f = x; self` or as `Self { f: x, ..self }`)
    cfg = {}
    for meth in ("duration_seconds", "delay_seconds", "repeat", "reverse", "default_easing"):
        b = F.one(crate="mina_core", name=meth, impl_trait="mina_core::timeline::TimelineConfigurationBuilder")
        ps = [p for p in pse.Engine(F).run(b) if p.outcome == "return"]
        ok = len(ps) == 1
        where = None
        if ok:
            changed = _changed_fields(ps[0].ret, ("param", 1))
            ok = changed is not None and len(changed) == 1 and list(changed.values())[0] == ("param", 2)
            where = list(changed)[0] if ok else None
        cfg[meth] = where
        ctx.ob(rule, "config-setter/" + meth, ok, "%s must store its argument in exactly one field" % meth, b["span"],
               what="config-setter")
    # 2. configuration fields -> TimeScale roles, in the conversion that builds the timeline arguments (helpers inlined)
    from rules import c11
    convs = [bb for bb in c11.builders_of(F, c11.TBA) if F.body_unit[bb["id"]][0] == "mina_core"]
    if len(convs) != 1:
        ctx.lost(rule, "flow/conversion", "expected one constructor of TimelineBuilderArguments in mina_core, found %s"
                 % [bb["path"] for bb in convs])
        return
    ct = convs[0]
    ps = [p for p in pse.Engine(F).run(ct) if p.outcome == "return"]
    ts_field = [f["name"] for f in F.adt(c11.TBA)["variants"][0]["fields"] if f["ty"] == TT.TS]
    def configured(p):
        """the time scale a path of the conversion builds, reduced to its configured fields (cached ones follow from them)"""
        v = dict(p.ret[4]).get(ts_field[0]) if p.ret[0] == "agg" and ts_field else None
        if v is None or v[0] != "agg" or v[2] != TT.TS:
            return v
        return ("agg", v[1], v[2], v[3], tuple((k, x) for k, x in v[4] if k in roles.values()))
    rets = {repr(configured(p)) for p in ps}
    ok = len(ps) >= 1 and len(rets) == 1 and "None" not in rets
    tsv = configured(ps[0]) if ok else None
    if ok and tsv[0] == "agg" and tsv[2] == TT.TS:
        got = dict(tsv[4])
        want = {roles["duration"]: "duration_seconds", roles["delay"]: "delay_seconds", roles["repeat"]: "repeat",
                roles["reverse"]: "reverse"}
        for tsf, meth in want.items():
            v = got.get(tsf)
            okf = cfg.get(meth) is not None and v in (("field", ("deref", ("param", 1)), cfg[meth]),
                                                      ("field", ("param", 1), cfg[meth]))
            ctx.ob(rule, "flow/%s->TimeScale.%s" % (meth, tsf), okf,
                   "the value given to %s must become the time scale's %s; it receives %s" % (meth, tsf, show(v)),
                   ct["span"], what="metadata-flow")
    else:
        ctx.ob(rule, "flow/conversion", False, "the conversion must build one TimeScale from the configuration; got %s"
               % (show(tsv) if tsv else sorted(rets, key=str)), ct["span"], what="metadata-flow")
    # the default easing travels beside the time scale: configuration field -> the arguments' easing field (the generated
    # build hands that field to every sub-timeline: C17/G4)
    ez_fields = [f["name"] for f in F.adt(c11.TBA)["variants"][0]["fields"] if f["ty"].endswith("easing::Easing")]
    if len(ez_fields) == 1 and cfg.get("default_easing") is not None:
        vals = {repr(dict(p.ret[4]).get(ez_fields[0])) for p in ps if p.ret[0] == "agg"}
        want = {repr(("field", ("deref", ("param", 1)), cfg["default_easing"])), repr(("field", ("param", 1), cfg["default_easing"]))}
        ctx.ob(rule, "flow/default_easing->arguments.%s" % ez_fields[0], len(vals) == 1 and vals <= want,
               "the easing given to default_easing must become the builder arguments' default easing; it receives %s"
               % sorted(vals)[:2], ct["span"], what="metadata-flow")
    else:
        ctx.ob(rule, "flow/default_easing", False, "the builder arguments must carry exactly one Easing (the default easing): %s"
               % ez_fields, ct["span"], what="metadata-flow")
    # 2b. a configuration nobody touched is a valid one: cycle duration finite > 0, delay 0, no repeat, no reverse (the
    #     premise under which every other rule reads the time scale)
    db = F.find(crate="mina_core", name="default", impl_trait="core::default::Default")
    db = [x for x in db if "TimelineConfiguration" in (x.get("impl_self") or "")]
    if len(db) == 1:
        dps = [p for p in pse.Engine(F).run(db[0]) if p.outcome == "return"]
        okd = len(dps) == 1 and dps[0].ret[0] == "agg"
        got = {}
        if okd:
            dv = dict(dps[0].ret[4])
            fv = lambda t: t[2][2] if pse.is_const(t) and isinstance(t[2], tuple) and t[2][0] == "f" else None
            got = {"duration": fv(dv.get(cfg.get("duration_seconds"), ("x",))), "delay": fv(dv.get(cfg.get("delay_seconds"), ("x",))),
                   "repeat": (pse.unit_variant(dv.get(cfg.get("repeat"), ("x",))) or (None, None))[1],
                   "reverse": dv.get(cfg.get("reverse"))}
            okd = got["duration"] is not None and 0.0 < got["duration"] < float("inf") and got["delay"] == 0.0 and \
                got["repeat"] == "None" and got["reverse"] == pse.mk_bool(False)
        ctx.ob(rule, "config-default", okd,
               "an untouched configuration must be valid and neutral: cycle duration finite > 0, delay 0, Repeat::None, "
               "reverse false; it is %s" % got, db[0]["span"], what="default-configuration")
    else:
        ctx.lost(rule, "config-default", "Default for TimelineConfiguration not found (%d candidates)" % len(db))
    # 3. getters
    for g, role in (("get_cycle_duration", "duration"), ("get_delay", "delay"), ("get_repeat", "repeat")):
        b = F.one(crate="mina_core", name=g, impl_self_adt=TT.TS)
        ps = [p for p in pse.Engine(F).run(b) if p.outcome == "return"]
        ok = len(ps) == 1 and ps[0].ret == TT.fld(roles[role])
        ctx.ob(rule, "getter/" + g, ok, "%s must return the %s field; returns %s" % (g, role, [show(p.ret) for p in ps]),
               b["span"], what="getter")
    # 4. generated accessors delegate to the same-meaning getter (repo derive uses + witness family)
    bodies = []
    for meth in ("cycle_duration", "delay", "duration", "repeat"):
        for b in F.find(name=meth, impl_trait=TL):
            # derive-generated impls compiled by the repository's own build + the hand-written sibling
            if b.get("impl_exp") or F.body_unit[b["id"]][0] == "macroless_timeline":
                bodies.append((F, b))
    try:
        import witness
        for meth in ("cycle_duration", "delay", "duration", "repeat"):
            for b in witness.derive_bodies(ctx, name=meth, impl_trait=TL):
                bodies.append((b["_facts"], b))
    except ImportError:
        pass
    n = 0
    for (FF, b) in bodies:
        check_accessor(ctx, FF, b, rule)
        n += 1
    ctx.floor(rule, "generated Timeline accessors", n, 8)


def _changed_fields(r, base):
    """{field: new value} for a struct value r derived from `base` (update chain or full aggregate); None if neither"""
    changed = {}
    t = r
    while t[0] == "upd":
        if t[2][0] != "field" or t[2][1] in changed:
            return None
        changed[t[2][1]] = t[3]
        t = t[1]
    if t == base:
        return changed
    if t[0] == "agg" and t[1] == "adt" and not changed:
        for name, v in t[4]:
            if v != ("field", base, name):
                changed[name] = v
        return changed
    return None


SIBLING = {"cycle_duration": "get_cycle_duration", "delay": "get_delay", "duration": "get_duration",
           "repeat": "get_repeat"}


def check_accessor(ctx, FF, b, rule):
    meth = b["name"]
    ps = [p for p in pse.Engine(FF, inline=lambda fn, bb: False).run(b) if p.outcome == "return"]
    ok = len(ps) == 1
    got = None
    if ok:
        r = ps[0].ret
        if meth == "cycle_duration" and r[0] == "agg" and r[3] == "Some":
            r = r[4][0][1]
        got = r
        ok = r[0] == "call" and r[1] == "mina_core::time_scale::TimeScale::" + SIBLING[meth] and \
            r[2][0][0] == "&" and r[2][0][1][0] == "field" and r[2][0][1][1] == ("deref", ("param", 1))
    if b["path"].startswith("<macroless_timeline::") and not ok:
        ctx.notes.append("sibling note: hand-written %s does not delegate to %s (%s) - examples are not library behaviour"
                         % (b["path"], SIBLING[meth], show(got) if got else "?"))
        return
    ctx.ob(rule, "accessor/" + b["path"], ok,
           "generated %s() must return timescale.%s(); returns %s" % (meth, SIBLING[meth], show(got) if got else "?"),
           b["span"], what="accessor-wrong-getter")


def check(ctx):
    tab = TT.build(ctx)
    ctx.extra["timescale_roles"] = tab["roles"]
    rule_range(ctx, tab)
    rule_mirror(ctx, tab)
    rule_not_started(ctx, tab)
    rule_one_clock(ctx, tab)
    rule_duration_formula(ctx, "R4", tab)
    rule_metadata(ctx, tab)
    # after the end a reversing timeline rests at 0, any other at 1 (C02/R3)
    from rules import c02
    c02.rule_ended(ctx, tab, "R6")
    # "0% while time < delay", as the evaluation sees it: prepare_frame maps NotStarted to position 0.0 (C10/R1)
    from rules import c10
    c10.rules_prepare_frame(ctx, "R7")
    c10.rules_loop_state(ctx, "R7", tab)     # "which cycle" is told by the same quotient as the phase
    ctx.notes.append("not decided: linear rise and exact periodicity as numeric relations over all f32 times")
    ctx.assumptions += ["cycle duration D finite and > 0, time finite (valid configuration)",
                        "f32 division, remainder, subtraction are correctly rounded and monotone"]


CTL_TS = "witness_controls::timescale::CtlTimeScale"


def controls(ctx, F):
    tab = TT.build(ctx, F, adt=CTL_TS)
    rule_mirror(ctx, tab)
    rule_duration_formula(ctx, "R4", tab, adt=CTL_TS)
    return [("R2", "fold-threshold", "time scale copy that folds the reversing cycle at 0.4"),
            ("R4", "end-threshold-differs-from-duration", "time scale copy whose reported duration ignores the delay")]
