def rules_override_scope(ctx, prefix="R"):
    pass
def check(ctx):
    pass
