"""C10 - a substituted start value only affects the first forward pass (DESIGN.md section 5, C10)."""
from rules import timescale_table as TT
from rulelib import trace_of, calls
import pse
from pse import show

TSP = "mina_core::time_scale::TimeScalePosition"


def prepare_frame_table(ctx, F):
    """rows of prepare_frame keyed by the phase returned by get_position"""
    body = F.one(crate="mina_core", name="prepare_frame")
    eng = pse.Engine(F, inline=lambda fn, b: b["name"] != "get_position")
    paths = eng.run(body)
    ctx.count_paths(paths, body)
    rows = []
    for p in paths:
        gp = calls(p, lambda e: e["fn"]["name"] == "get_position")
        phase = None
        conds = {}
        for (t, v, s) in p.conds:
            if t[0] == "discr" and gp and t[1] == gp[0]["result"] and not isinstance(v, tuple):
                phase = {int(d): n for n, d in t[2]}.get(v)
            if t[0] == "field" and t[2] in ("is_repeating", "is_reversing"):
                conds[t[2]] = v
        rows.append({"path": p, "phase": phase, "gp": gp, "conds": conds})
    return body, rows


def flag_value(flagterm, rep, rev, conds):
    """evaluate the override flag under an assignment of (is_repeating, is_reversing); None if the row
    contradicts the assignment"""
    if conds.get("is_repeating", rep) != rep or conds.get("is_reversing", rev) != rev:
        return None

    def ev(t):
        if pse.is_const(t) and isinstance(t[2], bool):
            return t[2]
        if t[0] == "field" and t[2] == "is_repeating":
            return bool(rep)
        if t[0] == "field" and t[2] == "is_reversing":
            return bool(rev)
        if t[0] == "un" and t[1] == "Not":
            x = ev(t[2])
            return None if x is None else (not x)
        if t[0] == "bin" and t[1] in ("BitAnd", "BitOr"):
            a, b = ev(t[2]), ev(t[3])
            if a is None or b is None:
                return None
            return (a and b) if t[1] == "BitAnd" else (a or b)
        return None
    return ev(flagterm)


def rules_prepare_frame(ctx, prefix="R1", F=None):
    """phase mapping: NotStarted -> (0.0, override on); Ended(t) -> (t, off); Active(t, s) -> (t, !rep && !rev)"""
    F = F or ctx.facts
    body, rows = prepare_frame_table(ctx, F)
    seen = set()
    table = {}
    for r in rows:
        p = r["path"]
        if p.ret[0] != "agg" or p.ret[3] != "Some":
            continue
        tup = dict(p.ret[4][0][1][4])
        pos, flag = tup["0"], tup["2"]
        ph = r["phase"]
        seen.add(ph)
        if ph == "NotStarted":
            ok = pos == ("const", "f32", ("f", 0, 0.0)) and flag == pse.mk_bool(True)
            ctx.ob(prefix, "phase/NotStarted", ok, "before the start the position is 0.0 with the start override on; "
                   "got (%s, %s)" % (show(pos), show(flag)), body["span"], trace_of(p), what="not-started-mapping")
        elif ph == "Ended":
            ok = pos == ("field", ("variant", r["gp"][0]["result"], "Ended"), "0") and flag == pse.mk_bool(False)
            ctx.ob(prefix, "phase/Ended", ok, "after the end the terminal position is passed on with the override off; "
                   "got (%s, %s)" % (show(pos), show(flag)), body["span"], trace_of(p), what="ended-mapping")
        elif ph == "Active":
            ok = pos == ("field", ("variant", r["gp"][0]["result"], "Active"), "0")
            ctx.ob(prefix, "phase/Active/position[%s]" % sorted(r["conds"].items()), ok,
                   "while active the scale's position is passed on unchanged; got %s" % show(pos), body["span"],
                   trace_of(p), what="active-position")
            for rep in (0, 1):
                for rev in (0, 1):
                    fv = flag_value(flag, rep, rev, r["conds"])
                    if fv is None and all(r["conds"].get(k, x) == x for k, x in (("is_repeating", rep), ("is_reversing", rev))):
                        ctx.ob(prefix, "flag/Active[rep=%d,rev=%d]" % (rep, rev), False,
                               "override flag is not a boolean function of the loop state: %s" % show(flag), body["span"],
                               trace_of(p), what="override-flag-shape")
                    elif fv is not None:
                        table.setdefault((rep, rev), set()).add(fv)
    for (rep, rev), vals in sorted(table.items()):
        want = (not rep) and (not rev)
        ctx.ob(prefix, "flag/Active[rep=%d,rev=%d]" % (rep, rev), vals == {want},
               "start override must be enabled exactly on the first forward pass (!repeating && !reversing): "
               "for repeating=%d reversing=%d it is %s" % (rep, rev, sorted(vals)), body["span"], what="override-flag-wrong")
    ctx.ob(prefix, "flag/table-complete", set(table) == {(0, 0), (0, 1), (1, 0), (1, 1)} and
           seen >= {"NotStarted", "Active", "Ended"}, "all phases and loop states must be covered (%s, %s)"
           % (sorted(table), sorted(x for x in seen if x)), body["span"], what="override-table-incomplete")
    none_rows = [r for r in rows if r["path"].ret[0] == "agg" and r["path"].ret[3] == "None"]
    ok = len(none_rows) == 1 and not none_rows[0]["gp"]
    ctx.ob(prefix, "empty-boundary-table", ok,
           "an empty timeline yields None before the time scale is consulted", body["span"], what="empty-timeline")


def rules_get_frame(ctx, prefix="R2", F=None):
    """the override frame replaces only frame 0, only when the flag is set and an override exists"""
    F = F or ctx.facts
    # found by signature, not by name: the method of SubTimeline that maps (index, enable-override flag) to a frame
    cands = F.find(crate="mina_core", test=False, impl_self_adt="mina_core::timeline_helpers::SubTimeline",
                   pred=lambda b: b["def_kind"] != "Closure" and sorted(b.get("sig_inputs", [])[1:]) == ["bool", "usize"]
                   and (b.get("sig_output") or "").startswith("core::option::Option<&")
                   and "SplitKeyframe" in (b.get("sig_output") or ""))
    if len(cands) != 1:
        # no such helper (the lookup may have been written inline): the same scope rule is decided on the inlined paths
        # of value_at by C01/R2's frame-pair rule (override only for flag set, index 0, override present)
        from rules import c01
        c01.rule_lookup(ctx, F, prefix, prefix)
        return
    b = cands[0]
    eng = pse.Engine(F)
    ps = eng.run(b)
    ctx.count_paths(ps, b)
    SELF = ("deref", ("param", 1))
    P_IDX = ("param", 1 + b["sig_inputs"].index("usize"))
    P_FLAG = ("param", 1 + b["sig_inputs"].index("bool"))
    a = F.adt("mina_core::timeline_helpers::SubTimeline")
    ov = [f["name"] for f in a["variants"][0]["fields"] if f["ty"].startswith("core::option::Option<")]
    fr = [f["name"] for f in a["variants"][0]["fields"] if "SplitKeyframe" in f["ty"] and f["ty"].startswith("alloc::vec::Vec<")]
    if len(ov) != 1 or len(fr) != 1:
        from facts import AnchorLost
        raise AnchorLost("SubTimeline override/frames fields")
    n_over = 0
    for p in ps:
        if p.outcome != "return":
            continue
        flag = idx0 = has = None
        for (t, v, s) in p.conds:
            if t == P_FLAG:
                flag = v
            if t[0] == "bin" and t[1] == "Eq" and t[2] == P_IDX and t[3] == ("const", "usize", 0):
                idx0 = v
            if t[0] == "discr" and pse.contains(t, ("field", ov[0])) or (t[0] == "discr" and pse.contains(t, ("field", SELF, ov[0]))):
                has = v
        r = p.ret
        uses_override = pse.contains(r, ("field", ov[0])) or pse.contains(r, ("field", SELF, ov[0]))
        if uses_override:
            n_over += 1
            ctx.ob(prefix, "get_frame/override-scope", flag == 1 and idx0 == 1 and has == 1,
                   "the override frame may be returned only for flag set, index 0 and override present; row "
                   "flag=%s index0=%s present=%s" % (flag, idx0, has), b["span"], trace_of(p), what="override-leaks")
        else:
            # plain lookup of the requested index in the frames
            g = [e for e in calls(p, lambda e: e["fn"]["name"] == "get")]
            ok = len(g) == 1 and g[0]["descs"][0] == ("&", ("field", SELF, fr[0])) and r == g[0]["result"]
            want_idx = ("const", "usize", 0) if (flag == 1 and idx0 == 1) else P_IDX
            ok = ok and g[0]["descs"][1] in (want_idx, P_IDX)
            if not ok and idx0 == 1:
                # index 0 established: `frames.first()` is `frames.get(0)`
                f1 = [e for e in calls(p, lambda e: e["fn"]["name"] == "first")]
                ok = not g and len(f1) == 1 and f1[0]["descs"][0] == ("&", ("field", SELF, fr[0])) and r == f1[0]["result"]
            ctx.ob(prefix, "get_frame/plain[%s,%s,%s]" % (flag, idx0, has), ok,
                   "without override the frame at the requested index is returned; returns %s" % show(r), b["span"],
                   trace_of(p), what="plain-frame-wrong")
    ctx.ob(prefix, "get_frame/override-row-exists", n_over == 1, "exactly one row yields the override (%d)" % n_over,
           b["span"], what="override-row-missing")
    # the helper is only as good as its callers: the frame pair the evaluation interpolates between must come through it
    # with the caller's flag (a second helper that hands out the override unconditionally would bypass the scope) - decided
    # on the inlined paths of value_at by the frame-pair rule (C01/R2)
    from rules import c01
    c01.rule_lookup(ctx, F, prefix, prefix)


def rules_loop_state(ctx, prefix="R3", tab=None):
    tab = tab or TT.build(ctx)
    S, D = tab["S"], tab["D"]
    quot = ("bin", "Div", S, D, "f32")
    one = ("const", "f32", ("f", 0x3F800000, 1.0))
    ge1 = pse.mk_bin("Le", one, quot)
    gt1 = pse.mk_bin("Lt", one, quot)
    for r in tab["rows"]:
        if r.kind != "Active" or r.env.infeasible:
            continue
        rep = dict(r.loop[4]).get("is_repeating")
        hold = any(t[0] == "bin" and t[1] == "Eq" and t[2][0] == "bin" and t[2][1] == "Rem" and v == 1 for (t, v, s) in r.path.conds) \
            and any(t == ge1 and v == 1 for (t, v, s) in r.path.conds)
        if r.repeat == "None":
            ok = rep == pse.mk_bool(False)
            want = "false"
        elif hold:
            # idioms: quot > 1, or time-since-delay > D
            ok = rep in (gt1, pse.mk_bin("Lt", D, S))
            want = "quot > 1 (the instant at the end of the first pass still belongs to it)"
        else:
            ok = rep in (ge1, pse.mk_bin("Le", D, S))
            want = "quot >= 1"
        ctx.ob(prefix, "is_repeating/" + r.label, ok, "is_repeating must be %s; it is %s" % (want, show(rep)),
               tab["body"]["span"], trace_of(r.path), what="repeating-flag-wrong")


def rules_override_scope(ctx, prefix="R6"):
    rules_prepare_frame(ctx, prefix)
    rules_get_frame(ctx, prefix)


def check(ctx):
    rules_prepare_frame(ctx, "R1")
    rules_get_frame(ctx, "R2")
    rules_loop_state(ctx, "R3")
    # a merged timeline hands start_with(v) to every component and evaluates every component at every time, including
    # before that component's own delay (C12/R1, R2)
    # "during a reverse pass ... identical to the same timeline without start_with": the reversing flag is the fold test
    # itself (C03/R2)
    from rules import c03
    c03.rule_mirror(ctx, TT.build(ctx), "R3")
    # start_with(v) reaches every animated property of a generated timeline (C17/G6)
    # the substituted frame is frame 0 with exactly the given value (C09/R4)
    from rules import c09
    c09.rule_override(ctx, ctx.facts, "R2")
    from rules import derive_rules
    derive_rules.rule_blend_wiring(ctx, "R5")
    # ... and the generated update evaluates every property whenever there is a frame, also before the delay (C01/R5)
    derive_rules.rule_wiring(ctx, "R5")
    from rules import c12
    c12.check_loop_method(ctx, ctx.facts, "R4", "update", mutable=False)
    c12.check_loop_method(ctx, ctx.facts, "R4", "start_with", mutable=True)
    ctx.notes.append("not decided: 'yields exactly v up to the delay' beyond C02/R1 + C13 endpoint facts; comparison "
                     "with an un-substituted twin at all times")
    ctx.assumptions.append("division is monotone and correctly rounded, so time-since-delay >= D implies quot >= 1")


def controls(ctx, F):
    from rules import c03
    tab = TT.build(ctx, F, adt=c03.CTL_TS)
    rules_loop_state(ctx, "R3", tab)
    return [("R3", "repeating-flag-wrong", "time scale copy computing is_repeating with > instead of >=")]
