"""C07 - completion is reported exactly when the animation is over (DESIGN.md section 5, C07)."""
from rules import animator_table as T
from rules import c12, c03
from rulelib import trace_of, call_is
import pse
from pse import show


def check(ctx, adt=T.ANIM_ADT, F=None, only_r1=False):
    F = F or ctx.facts
    R = T.roles_of(F, adt)
    body = F.one(name="is_ended", impl_self_adt=adt, impl_trait=T.SA_TRAIT)
    # Timeline methods stay trait-level calls
    eng = pse.Engine(F, inline=lambda fn, b: b.get("impl_trait") != T.TL_TRAIT)
    paths = eng.run(body)
    ctx.count_paths(paths, body)
    init = lambda role: ("field", ("deref", ("param", 1)), R[role])
    inst = body["path"]
    seen = set()
    for p in paths:
        hd = T.entry_decision(p, R, init("current_state"))
        has = [] if hd is None else [hd]
        if has == [0]:
            seen.add(0)
            ctx.ob("R1", inst + "/no-timeline", p.ret == pse.mk_bool(True) and p.outcome == "return",
                   "a state without timeline is ended: must return true, returns %s" % show(p.ret), body["span"],
                   trace_of(p), what="no-timeline-not-ended")
        elif has == [1]:
            seen.add(1)
            r = p.ret
            ok = r[0] == "bin" and r[1] == "Le"
            if ok:
                d, t = r[2], r[3]
                ok = call_is(d, T.TL_TRAIT, "duration") and d[2][0][0] == "&" and t in T.as_seconds(init("time"))
            ctx.ob("R1", inst + "/ended-iff-time>=duration", ok,
                   "is_ended must be `state_duration.as_secs_f32() >= current timeline.duration()` "
                   "(canonical: duration <= time); it is %s" % show(r), body["span"], trace_of(p),
                   what="end-test-wrong")
        else:
            ctx.ob("R1", inst + "/rows", False, "unexpected row in is_ended: %s" % [show(c) for c, _, _ in p.conds],
                   body["span"], trace_of(p), what="unexpected-row")
    ctx.ob("R1", inst + "/both-rows", seen == {0, 1}, "is_ended must distinguish has-timeline / no-timeline",
           body["span"], what="rows-missing")
    if only_r1:
        return
    # R2: merged duration = maximum of the components' durations; infinite iff Repeat::Infinite (C03/R4)
    c12.check_fold(ctx, F, "R2", "duration", "max_by")
    c03.rule_duration_formula(ctx, "R2")
    # R3: the terminal values do not depend on the start override: every animated property ends with its own frame at
    # 100 %, so the value at the end instant (still Active, override on) and after it (Ended, override off) is the same
    from rules import c01, c10
    c01.rule_split(ctx, F, "R3")
    c10.rules_override_scope(ctx, prefix="R3")
    # after the end the frame is still found by the search for the terminal position (0% for reversing timelines), not
    # assumed to be the last one
    c01.rule_search(ctx, F, "R3")
    # "once true it stays true": the time spent in the state only grows - advance adds the elapsed time, nothing else
    # writes it (C06/R1)
    from rules import c06
    before = len(ctx.obs)
    nn = len(ctx.notes)
    c06.check(ctx)
    del ctx.notes[nn:]
    for o in ctx.obs[before:]:
        o["key"] = o["key"].replace("C07/%s/" % o["rule"], "C07/R4/%s/" % o["rule"].lower(), 1)
        o["rule"] = "R4"
    # "once true it stays true ... until the state changes": a call of set_state with the current state has no effect and the
    # time is rewound only by a real transition (the set_state rows of C04/C05)
    if adt == T.ANIM_ADT:
        before = len(ctx.obs)
        tabA = T.build(ctx)
        T.rules_c04(ctx, tabA)
        T.rules_c05(ctx, tabA)
        for o in ctx.obs[before:]:
            o["key"] = o["key"].replace("C07/%s/" % o["rule"], "C07/R5/%s/" % o["rule"].lower(), 1)
            o["rule"] = "R5"
    ctx.notes.append("R3 (once ended, values rest) follows from C06/R1 (the accumulator only grows), C02/R3 (Ended "
                     "maps to a constant position) and C09 (update is a function of time)")
    ctx.notes.append("not decided: float behaviour exactly at the end instant of multi-cycle timelines")


def controls(ctx, F):
    check(ctx, adt="witness_controls::anim::CtlAnimator", F=F, only_r1=True)
    c12.check_fold(ctx, F, "R2", "duration", "max_by", adt="witness_controls::merged::CtlMerged")
    return [("R1", "end-test-wrong", "is_ended with a strict comparison"),
            ("R2", "comparator-not-natural", "merged duration folded with a reversed comparator")]
