"""Loading and indexing of the JSON facts written by tools/mina-facts."""
import glob
import json
import os


class Facts:
    """All units of one extraction.  Bodies are indexed by id; when the same crate was compiled more
    than once (host build for the proc-macro, feature-unified target build, test build) the preferred
    unit is: non-test, most cfg(feature=...) entries."""

    def __init__(self, dirs):
        if isinstance(dirs, str):
            dirs = [dirs]
        self.units = []
        for d in dirs:
            for f in sorted(glob.glob(os.path.join(d, "*.json"))):
                if os.path.basename(f) == "COMPLETE.json":
                    continue
                u = json.load(open(f))
                u["_file"] = f
                self.units.append(u)
        if not self.units:
            raise RuntimeError("no fact units in %s" % dirs)
        # choose one unit per (crate, test)
        best = {}
        for u in self.units:
            k = (u["crate"], u["test"])
            score = sum(1 for c in u["cfg"] if c.startswith("feature="))
            if k not in best or score > best[k][0]:
                best[k] = (score, u)
        self.unit = {k: v[1] for k, v in best.items()}
        self.bodies = {}
        self.adts = {}
        self.impls = []
        self.body_unit = {}
        # non-test first so that they win; test units only add bodies that do not exist otherwise
        order = sorted(self.unit.items(), key=lambda kv: (kv[0][1], kv[0][0]))
        for (crate, test), u in order:
            for b in u["bodies"]:
                if b["id"] not in self.bodies:
                    self.bodies[b["id"]] = b
                    self.body_unit[b["id"]] = (crate, test)
            for a in u["adts"]:
                if a["path"] not in self.adts or (a["local"] and not self.adts[a["path"]]["local"]):
                    self.adts[a["path"]] = a
            if not test or crate in ("state_animator_test",):
                for i in u["impls"]:
                    i = dict(i)
                    i["crate"] = crate
                    i["test"] = test
                    self.impls.append(i)

    # ---- lookups -------------------------------------------------------------------------------
    def crate_bodies(self, crate, test=False):
        u = self.unit.get((crate, test))
        return u["bodies"] if u else []

    def find(self, crate=None, name=None, impl_trait=None, impl_self_adt=None, impl_self=None, in_trait=None,
             test=None, pred=None):
        out = []
        for bid, b in self.bodies.items():
            if "::promoted[" in bid:
                continue
            bc, bt = self.body_unit[bid]
            if crate is not None and bc != crate:
                continue
            if test is not None and bt != test:
                continue
            if name is not None and b.get("name") != name:
                continue
            if impl_trait is not None and b.get("impl_trait") != impl_trait:
                continue
            if impl_self_adt is not None and b.get("impl_self_adt") != impl_self_adt:
                continue
            if impl_self is not None and b.get("impl_self") != impl_self:
                continue
            if in_trait is not None and b.get("in_trait") != in_trait:
                continue
            if pred is not None and not pred(b):
                continue
            out.append(b)
        return out

    def traits_by_path(self):
        """paths of the traits that methods in the facts belong to (declared or implemented)"""
        if not hasattr(self, "_traits"):
            self._traits = set()
            for b in self.bodies.values():
                for k in ("impl_trait", "in_trait"):
                    if b.get(k):
                        self._traits.add(b[k])
        return self._traits

    def impl_method(self, trait, adt, name):
        key = (trait, adt, name)
        if not hasattr(self, "_impl_idx"):
            self._impl_idx = {}
            for bid, b in self.bodies.items():
                if "::promoted[" in bid or not b.get("impl_trait") or not b.get("impl_self_adt"):
                    continue
                self._impl_idx.setdefault((b["impl_trait"], b["impl_self_adt"], b["name"]), []).append(b)
        return self._impl_idx.get(key, [])

    def one(self, **kw):
        r = self.find(**kw)
        if len(r) != 1:
            raise AnchorLost("expected exactly one body for %r, found %d: %s"
                             % (kw, len(r), [b["path"] for b in r][:6]))
        return r[0]

    def adt(self, path):
        a = self.adts.get(path)
        if a is None:
            raise AnchorLost("type %s not found" % path)
        return a

    def closures_of(self, body):
        pref = body["id"] + "::{closure#"
        return [b for i, b in self.bodies.items() if i.startswith(pref)]


class AnchorLost(Exception):
    """An entity a rule is anchored in cannot be found: reported as a violation, never a pass."""
    pass


def span_of(body, bi=None, si=None):
    if bi is None:
        return body["span"]
    blk = body["blocks"][bi]
    if si is None or si >= len(blk["stmts"]):
        t = blk["term"]
        return t.get("span") or blk.get("tspan")
    return blk["stmts"][si].get("span", blk.get("tspan"))
