"""E1 runner: (re)build the mina-facts driver and extract MIR facts from a cargo workspace.

Facts are cached under /verif/.cache/facts/<name>/<key>/ where <key> hashes every source file that
can influence them (workspace sources + driver binary + configuration).  Fail-closed: a run that does
not produce the expected units raises, it never yields "no facts, hence no violations".
"""
import fcntl
import glob
import hashlib
import json
import os
import shutil
import subprocess
import sys
import time

VERIF = os.path.dirname(os.path.dirname(os.path.abspath(__file__)))
REPO = os.environ.get("MINA_REPO", "/repo")
CACHE = os.path.join(VERIF, ".cache")
DRIVER_DIR = os.path.join(VERIF, "tools", "mina-facts")
DRIVER = os.path.join(DRIVER_DIR, "target", "debug", "mina-facts")

_ENV_OFFLINE = {"CARGO_NET_OFFLINE": "true"}


class ExtractError(Exception):
    pass


def _run(cmd, cwd, env=None, timeout=3600):
    e = dict(os.environ)
    e.update(_ENV_OFFLINE)
    if env:
        e.update(env)
    p = subprocess.run(cmd, cwd=cwd, env=e, stdout=subprocess.PIPE, stderr=subprocess.STDOUT,
                       text=True, timeout=timeout)
    return p.returncode, p.stdout


def nightly_sysroot():
    rc, out = _run(["rustc", "+nightly", "--print", "sysroot"], cwd=VERIF)
    if rc != 0:
        raise ExtractError("nightly toolchain not available: " + out)
    return out.strip().splitlines()[-1]


def driver_sources_hash():
    h = hashlib.sha256()
    for f in sorted(glob.glob(os.path.join(DRIVER_DIR, "src", "*.rs"))) + [
            os.path.join(DRIVER_DIR, "Cargo.toml")]:
        h.update(open(f, "rb").read())
    return h.hexdigest()[:16]


def ensure_driver():
    """Build the driver if its sources changed (13-20 s cold, <1 s warm)."""
    os.makedirs(CACHE, exist_ok=True)
    stamp = os.path.join(CACHE, "driver.stamp")
    want = driver_sources_hash()
    if os.path.exists(DRIVER) and os.path.exists(stamp) and open(stamp).read() == want:
        return DRIVER
    with open(os.path.join(CACHE, "driver.lock"), "w") as lk:
        fcntl.flock(lk, fcntl.LOCK_EX)
        if os.path.exists(DRIVER) and os.path.exists(stamp) and open(stamp).read() == want:
            return DRIVER
        rc, out = _run(["cargo", "+nightly", "build", "--offline"], cwd=DRIVER_DIR)
        if rc != 0 or not os.path.exists(DRIVER):
            raise ExtractError("building mina-facts failed:\n" + out[-4000:])
        open(stamp, "w").write(want)
    return DRIVER


def tree_hash(root, extra=()):
    """SHA-256 over every file that can influence compilation of the workspace at `root`."""
    h = hashlib.sha256()
    files = []
    for dp, dn, fn in os.walk(root):
        dn[:] = [d for d in dn if d not in ("target", ".git", "art", "doc")]
        for f in fn:
            if f.endswith(".rs") or f in ("Cargo.toml", "Cargo.lock", "build.rs"):
                files.append(os.path.join(dp, f))
    for f in sorted(files):
        h.update(os.path.relpath(f, root).encode())
        h.update(b"\0")
        h.update(open(f, "rb").read())
        h.update(b"\0")
    for e in extra:
        h.update(str(e).encode())
    return h.hexdigest()[:24]


def extract(name, workspace_dir, cargo_args, expect, rustflags="", extern="", key_extra=(),
            member_prefixes=(), message_format_json=False):
    """Run cargo check under the driver.  Returns (facts_dir, info).

    name            cache namespace ("repo", "repo-release", "witness-quick", ...)
    expect          list of (crate, test:bool) units that must be present afterwards
    member_prefixes fingerprint prefixes to delete so that cargo re-runs the wrapper
    """
    drv = ensure_driver()
    key = tree_hash(workspace_dir, extra=(driver_sources_hash(), rustflags, extern, " ".join(cargo_args))
                    + tuple(key_extra))
    base = os.path.join(CACHE, "facts", name)
    out = os.path.join(base, key)
    marker = os.path.join(out, "COMPLETE.json")
    if os.path.exists(marker):
        return out, json.load(open(marker))
    os.makedirs(base, exist_ok=True)
    with open(os.path.join(base, "lock"), "w") as lk:
        fcntl.flock(lk, fcntl.LOCK_EX)
        if os.path.exists(marker):
            return out, json.load(open(marker))
        # drop stale fact sets of this namespace (disk is limited)
        for d in glob.glob(os.path.join(base, "*")):
            if os.path.isdir(d) and d != out:
                shutil.rmtree(d, ignore_errors=True)
        tmp = out + ".tmp"
        shutil.rmtree(tmp, ignore_errors=True)
        os.makedirs(tmp)
        target = os.path.join(CACHE, "target-" + name)
        os.makedirs(target, exist_ok=True)
        # cargo's freshness cache would skip the wrapper: forget the members
        for pref in member_prefixes:
            for prof in glob.glob(os.path.join(target, "*")):
                for fp in glob.glob(os.path.join(prof, ".fingerprint", pref + "-*")):
                    shutil.rmtree(fp, ignore_errors=True)
        sysroot = nightly_sysroot()
        env = {
            "LD_LIBRARY_PATH": os.path.join(sysroot, "lib") + ":" + os.environ.get("LD_LIBRARY_PATH", ""),
            "RUSTFLAGS": ("-Zmir-opt-level=0 -Zalways-encode-mir -Awarnings " + rustflags).strip(),
            "RUSTC_WORKSPACE_WRAPPER": drv,
            "MINA_FACTS_DIR": tmp,
            "MINA_FACTS_EXTERN": extern,
            "CARGO_TARGET_DIR": target,
        }
        t0 = time.time()
        cmd = ["cargo", "+nightly", "check", "--offline"] + list(cargo_args)
        if message_format_json:
            cmd.append("--message-format=json")
        rc, log = _run(cmd, cwd=workspace_dir, env=env)
        wall = time.time() - t0
        open(os.path.join(tmp, "cargo.log"), "w").write(log)
        units = []
        for f in sorted(glob.glob(os.path.join(tmp, "*.json"))):
            try:
                with open(f) as fh:
                    head = fh.read(300)
                cr = head.split('"crate":"', 1)[1].split('"', 1)[0]
                test = '"test":true' in head
                units.append({"file": os.path.basename(f), "crate": cr, "test": test})
            except Exception as ex:  # unreadable fact file = failure
                raise ExtractError("unreadable fact file %s: %s" % (f, ex))
        missing = [e for e in expect if not any(u["crate"] == e[0] and u["test"] == e[1] for u in units)]
        info = {"rc": rc, "wall_s": round(wall, 2), "units": units, "key": key, "missing": missing,
                "workspace": workspace_dir, "cargo_args": list(cargo_args)}
        if rc != 0 and not message_format_json:
            raise ExtractError("cargo check failed under the fact extractor (rc=%d):\n%s" % (rc, log[-6000:]))
        if missing and rc == 0:
            raise ExtractError("fact extraction produced no unit for %s (anchor lost); log tail:\n%s"
                               % (missing, log[-3000:]))
        json.dump(info, open(os.path.join(tmp, "COMPLETE.json"), "w"))
        shutil.rmtree(out, ignore_errors=True)
        os.rename(tmp, out)
        return out, info


REPO_MEMBERS = ("mina", "mina_core", "mina_macros", "bevy_mina", "state_animator_test", "macroless_timeline")
REPO_EXPECT = [("mina_core", False), ("mina_macros", False), ("bevy_mina", False),
               ("state_animator_test", True), ("macroless_timeline", False)]


def extract_repo(release=False):
    """Facts for /repo's own workspace (all targets)."""
    if release:
        return extract("repo-rel", REPO, ["--workspace", "--all-targets"], REPO_EXPECT,
                       rustflags="-C debug-assertions=off -C overflow-checks=off", extern="lyon_geom::,euclid::point::",
                       member_prefixes=REPO_MEMBERS)
    return extract("repo", REPO, ["--workspace", "--all-targets"], REPO_EXPECT, extern="lyon_geom::,euclid::point::",
                   member_prefixes=REPO_MEMBERS)


if __name__ == "__main__":
    d, info = extract_repo(release=len(sys.argv) > 1 and sys.argv[1] == "release")
    print(d)
    print(json.dumps(info, indent=1))
