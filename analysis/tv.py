"""Translation validation of macro output (DESIGN.md 3.3): builder chains -> configuration records."""
import pse
from pse import show, is_const

TLB = "mina_core::timeline::TimelineBuilder"
TOB = "mina_core::timeline::TimelineOrBuilder"
SAB = "mina_core::animator::StateAnimatorBuilder"


def inline_pred(fn, body):
    # stop at the generated TimelineBuilder::build (the record is its argument) and at the animator builder's methods
    if body["name"] == "build" and body.get("impl_trait") == TLB:
        return False
    if body.get("impl_self_adt") == SAB:
        return False
    if body["name"] == "of" and body.get("impl_self_adt") == "mina_core::timeline::MergedTimeline":
        return False
    return True


def summarize(F, body):
    eng = pse.Engine(F, inline=inline_pred)
    ps = eng.run(body)
    return eng, ps


def strip(t):
    """remove call sequence numbers and 'after' wrappers' bookkeeping so that two chains are comparable"""
    if not isinstance(t, tuple) or not t:
        return t
    if t[0] == "call":
        return ("call", t[1], tuple(strip(a) for a in t[2]))
    if t[0] == "after":
        return ("after", strip(t[1]), t[2], strip(t[3]))
    return tuple(strip(x) if isinstance(x, tuple) else x for x in t)


def keyframes_of(v):
    """push chain -> list of keyframe terms (insertion order)"""
    out = []
    while v[0] == "after" and v[1][0] == "call" and v[1][1].startswith("alloc::vec::Vec::<T, A>::push"):
        out.append(v[1][2][1])
        v = v[3]
    if not (v[0] == "call" and v[1].startswith("alloc::vec::Vec::<T>::new")):
        out.append(("unknown-prefix", v))
    out.reverse()
    return out


def timeline_record(cfg):
    """TimelineConfiguration aggregate -> record"""
    cfg = strip(cfg)
    if cfg[0] != "agg":
        return {"opaque": cfg}
    d = dict(cfg[4])
    rec = {}
    for k, v in d.items():
        if isinstance(v, tuple) and v and (v[0] == "after" or (v[0] == "call" and "Vec" in v[1])):
            # the builder sorts the keyframes by position (stably): records are compared in position order, and keyframes
            # that share a position keep the order in which they were added (that order is observable: a step)
            rec[k] = ("keyframes", tuple(sorted((keyframe_record(x) for x in keyframes_of(v)), key=_position_key)))
        else:
            rec[k] = v
    return rec


def _position_key(rec):
    """the keyframe's position when it is a constant f32 (the only f32 constant among its own fields), else a key that
    keeps the record where it is"""
    if isinstance(rec, tuple):
        fs = [v[2][2] for (name, v) in rec if isinstance(name, str) and isinstance(v, tuple) and len(v) == 3 and v[0] == "const"
              and v[1] == "f32" and isinstance(v[2], tuple) and v[2][0] == "f"]
        if len(fs) == 1:
            return fs[0]
    return float("inf")


def keyframe_record(k):
    if k[0] != "agg":
        return ("opaque", k)
    d = dict(k[4])
    out = []
    for name, v in sorted(d.items()):
        if v[0] == "agg" and v[1] == "adt" and v[3] is None:
            out.append((name, tuple(sorted(v[4]))))
        else:
            out.append((name, v))
    return tuple(out)


def build_args(ret):
    """the configuration values handed to TimelineBuilder::build inside a returned term, in order"""
    out = []

    def walk(t):
        if not isinstance(t, tuple) or not t:
            return
        if t[0] == "call" and (t[1].endswith(">::build") and "TimelineBuilder" in t[1]):
            out.append(t[2][0])
            return
        for x in t:
            if isinstance(x, tuple):
                walk(x)
    walk(ret)
    return out


def merged_shape(ret):
    """'single' | ('merged', n) - how the returned value is wrapped"""
    r = strip(ret)
    if r[0] == "call" and "TimelineBuilder" in r[1] and r[1].endswith(">::build"):
        return "single"
    if r[0] == "call" and r[1].endswith("MergedTimeline::<T>::of"):
        a = r[2][0]
        if a[0] == "agg" and a[1] == "array":
            return ("merged", len(a[4]))
    return ("other", show(r)[:200])


def f32_close(a, b, ulps=1):
    if is_const(a) and is_const(b) and isinstance(a[2], tuple) and isinstance(b[2], tuple) and a[2][0] == "f" and b[2][0] == "f":
        return a[1] == b[1] and abs(a[2][1] - b[2][1]) <= ulps
    return False


def same(a, b, diffs, path=""):
    """structural equality with a 1-ulp tolerance on f32 constants; records where two terms differ"""
    if a == b:
        return True
    if f32_close(a, b):
        diffs.setdefault("ulp", []).append((path, show(a), show(b)))
        return True
    if isinstance(a, dict) and isinstance(b, dict):
        ok = True
        for k in sorted(set(a) | set(b)):
            if k not in a or k not in b:
                diffs.setdefault("diff", []).append((path + "." + k, "missing on one side"))
                ok = False
            elif not same(a[k], b[k], diffs, path + "." + str(k)):
                ok = False
        return ok
    if isinstance(a, tuple) and isinstance(b, tuple) and len(a) == len(b) and (not a or not isinstance(a[0], str) or a[0] == b[0]):
        ok = True
        for i, (x, y) in enumerate(zip(a, b)):
            if isinstance(x, (tuple, dict)) or isinstance(y, (tuple, dict)):
                if not same(x, y, diffs, path + "/%s" % (x[0] if isinstance(x, tuple) and x and isinstance(x[0], str) else i)):
                    ok = False
            elif x != y:
                diffs.setdefault("diff", []).append((path, repr(x), repr(y)))
                ok = False
        return ok
    diffs.setdefault("diff", []).append((path, show(a)[:200] if isinstance(a, tuple) else repr(a),
                                         show(b)[:200] if isinstance(b, tuple) else repr(b)))
    return False


def show_record(r):
    if isinstance(r, dict):
        return {k: show_record(v) for k, v in r.items()}
    if isinstance(r, tuple) and r and r[0] == "keyframes":
        return [[(n, show(v) if isinstance(v, tuple) and v and isinstance(v[0], str) else
                  [(a, show(b)) for a, b in v]) for n, v in k] if isinstance(k, tuple) and k and k[0] != "opaque" else str(k)
                for k in r[1]]
    if isinstance(r, tuple):
        return show(r)
    return r


# ---------------------------------------------------------------------------------------------------
# animator chains
def animator_record(ret):
    """build(on(on(from_values(from_state(new(), s), v), st, tl), ...)) -> record"""
    r = strip(ret)
    rec = {"initial_state": None, "initial_values": None, "on": {}, "order": []}
    if not (r[0] == "call" and r[1].endswith("StateAnimatorBuilder::<State, Timeline>::build")):
        return {"opaque": show(r)[:300]}
    t = r[2][0]
    steps = []
    while t[0] == "call" and "StateAnimatorBuilder" in t[1]:
        name = t[1].split("::")[-1]
        steps.append((name, t[2][1:]))
        if not t[2]:
            break
        t = t[2][0]
    steps.reverse()
    for name, args in steps:
        if name == "from_state":
            rec["initial_state"] = args[0]
        elif name == "from_values":
            rec["initial_values"] = args[0]
        elif name == "on":
            st, tl = args[0], args[1]
            rec["on"][show(st)] = timeline_value_record(tl)
            rec["order"].append(show(st))
        elif name in ("new", "default"):
            pass
        else:
            rec.setdefault("other", []).append(name)
    return rec


def timeline_value_record(tl):
    """argument of on(): a configuration (builder) or MergedTimeline::of([builds...])"""
    if tl[0] == "agg" and tl[1] == "adt" and tl[2].endswith("TimelineConfiguration"):
        return ("single", timeline_record(tl))
    if tl[0] == "call" and "TimelineBuilder" in tl[1] and tl[1].endswith(">::build"):
        # a built timeline and its builder are the same TimelineOrBuilder value (generated impls, checked by C17/G9)
        return ("single", timeline_record(tl[2][0]))
    if tl[0] == "call" and tl[1].endswith("MergedTimeline::<T>::of"):
        a = tl[2][0]
        if a[0] == "agg" and a[1] == "array":
            recs = []
            for _, x in a[4]:
                ba = build_args(x)
                recs.append(timeline_record(ba[0]) if len(ba) == 1 else {"opaque": show(x)[:200]})
            return ("merged", tuple(recs))
    return ("opaque", show(tl)[:300])


def pair_paths(pm, pr):
    """Pair the return paths of the macro body and of the reference body by their branch-decision vectors (both go
    through the same builder code, so the same decisions arise in the same order).  -> list of (pm_i, pr_i) or None"""
    a = [p for p in pm if p.outcome == "return"]
    b = [p for p in pr if p.outcome == "return"]
    if len(a) != len(b) or not a:
        return None
    if len(pm) != len(a) or len(pr) != len(b):
        # panicking / diverging paths must also correspond in number
        if len(pm) - len(a) != len(pr) - len(b):
            return None
    key = lambda p: tuple(str(v) for (_, v, _) in p.conds)
    a.sort(key=key)
    b.sort(key=key)
    out = []
    for x, y in zip(a, b):
        if key(x) != key(y):
            return None
        d = {}
        for (cx, _, _), (cy, _, _) in zip(x.conds, y.conds):
            if not same(strip(cx), strip(cy), d, "cond"):
                return None
        out.append((x, y))
    return out
